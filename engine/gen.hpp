// gen.hpp — generators for cells, points and neighbourhoods (DESIGN.md §3.3).
// Every arm is a construction; every random choice is a rapidcheck draw (vh::ri / r64 / runit).
#pragma once
#include <cmath>
#include "harness.hpp"
#include "h3ref.hpp"
extern "C" {
#include "h3api.h"
}

namespace gen {
using vh::r64;
using vh::ri;
using vh::rpick;
using vh::runit;

static const double PI = 3.14159265358979323846;

// approximate cell "width" (centre-to-centre spacing) in radians at resolution r
inline double cellWidth(int r) { return 0.33 / std::pow(std::sqrt(7.0), r); }

struct V3 {
    double x, y, z;
};
inline V3 toV(double lat, double lng) { return {std::cos(lat) * std::cos(lng), std::cos(lat) * std::sin(lng), std::sin(lat)}; }
inline LatLng toLL(V3 v) {
    double n = std::sqrt(v.x * v.x + v.y * v.y + v.z * v.z);
    LatLng g = {std::asin(std::max(-1.0, std::min(1.0, v.z / n))), std::atan2(v.y, v.x)};
    return g;
}
inline V3 lerpN(V3 a, V3 b, double t) { return {a.x + (b.x - a.x) * t, a.y + (b.y - a.y) * t, a.z + (b.z - a.z) * t}; }
// move from point p by angular distance dist in direction az (radians, from north) — small offsets
inline LatLng offset(LatLng p, double dist, double az) {
    V3 v = toV(p.lat, p.lng);
    // local east / north
    V3 e = {-std::sin(p.lng), std::cos(p.lng), 0};
    V3 n = {-std::sin(p.lat) * std::cos(p.lng), -std::sin(p.lat) * std::sin(p.lng), std::cos(p.lat)};
    double cx = std::sin(az), cy = std::cos(az);
    V3 d = {e.x * cx + n.x * cy, e.y * cx + n.y * cy, e.z * cx + n.z * cy};
    double c = std::cos(dist), s = std::sin(dist);
    return toLL({v.x * c + d.x * s, v.y * c + d.y * s, v.z * c + d.z * s});
}

// the 12 icosahedron vertices = centres of the res-0 pentagons; the 30 edges = vertex pairs ~63.43 deg apart
struct Ico {
    LatLng vert[12];
    int edges[30][2];
    LatLng faceCentre[20];
    int nfaces = 0;
    Ico() {
        H3Index p[12];
        getPentagons(0, p);
        for (int i = 0; i < 12; i++) cellToLatLng(p[i], &vert[i]);
        int n = 0;
        for (int i = 0; i < 12; i++)
            for (int j = i + 1; j < 12; j++) {
                V3 a = toV(vert[i].lat, vert[i].lng), b = toV(vert[j].lat, vert[j].lng);
                double d = std::acos(a.x * b.x + a.y * b.y + a.z * b.z);
                if (d < 1.2 && n < 30) {
                    edges[n][0] = i;
                    edges[n][1] = j;
                    n++;
                }
            }
        // faces = triples of mutually adjacent vertices; centre = normalised sum
        auto adj = [&](int i, int j) {
            V3 a = toV(vert[i].lat, vert[i].lng), b = toV(vert[j].lat, vert[j].lng);
            return std::acos(a.x * b.x + a.y * b.y + a.z * b.z) < 1.2;
        };
        for (int i = 0; i < 12; i++)
            for (int j = i + 1; j < 12; j++)
                for (int k = j + 1; k < 12; k++)
                    if (adj(i, j) && adj(j, k) && adj(i, k) && nfaces < 20) {
                        V3 a = toV(vert[i].lat, vert[i].lng), b = toV(vert[j].lat, vert[j].lng), c = toV(vert[k].lat, vert[k].lng);
                        faceCentre[nfaces++] = toLL({a.x + b.x + c.x, a.y + b.y + c.y, a.z + b.z + c.z});
                    }
    }
};
inline const Ico &ico() {
    static Ico I;
    return I;
}

inline H3Index cellAt(LatLng g, int res) {
    H3Index h = 0;
    latLngToCell(&g, res, &h);
    return h;
}

// log-uniform in [lo, hi]: features of the grid are scale-free, so distances from the special points (face centres, icosahedron
// edges and vertices, pentagons) are drawn over all scales, from a fraction of a cell to a fraction of a face — a constant that is
// slightly off (a radius, a threshold) shows up at a distance that has nothing to do with the cell size
inline double logU(double lo, double hi) { return lo * std::pow(hi / lo, runit()); }

// direction from a special point: anywhere, or at any angular scale from a cardinal direction (due north/south/east/west are where
// lat/lng formulas — atan2, acos of a cosine near +-1 — lose precision) or from a multiple of 30 degrees (hexagon axes)
inline double specialAzimuth() {
    switch (rpick({3, 3, 1})) {
        case 0: return runit() * 2 * PI;
        case 1: return ri(0, 3) * PI / 2 + (ri(0, 1) ? 1 : -1) * logU(1e-13, 0.5);
        default: return ri(0, 11) * PI / 6 + (ri(0, 1) ? 1 : -1) * logU(1e-13, 0.2);
    }
}

// ---- arms
inline H3Index cellUniformIndex(int res) {
    int d[16] = {0};
    int bc = ri(0, 121);
    bool pent = ref::is_pent_bc(bc);
    bool lead = true;
    for (int r = 1; r <= res; r++) {
        int x = ri(0, 6);
        if (pent && lead && x == 1) x = 0;
        if (x) lead = false;
        d[r] = x;
    }
    return ref::make_cell(res, bc, d);
}
inline H3Index cellPentChain(int res) {  // pentagon base cell, j leading zeros then free digits (first non-zero != 1)
    int d[16] = {0};
    int bc = ref::PENT_BC[ri(0, 11)];
    int j = ri(0, res);
    bool lead = true;
    for (int r = 1; r <= res; r++) {
        int x = r <= j ? 0 : ri(0, 6);
        if (lead && x == 1) x = ri(2, 6);
        if (x) lead = false;
        d[r] = x;
    }
    return ref::make_cell(res, bc, d);
}
inline H3Index pentagonAt(int res, int which) {
    H3Index p[12];
    getPentagons(res, p);
    return p[which % 12];
}
inline H3Index cellPentDisk(int res, int kmax) {
    // polar pentagons (base cells 4, 117) get extra weight: their rotation rule is special
    int which = rpick({3, 1}) == 0 ? ri(0, 11) : (ri(0, 1) ? 0 : 11);
    H3Index p = pentagonAt(res, which);
    if (rpick({4, 1})) {  // any scale from the pentagon (distortion persists along the five icosahedron edges that meet there)
        LatLng c;
        cellToLatLng(p, &c);
        H3Index h = cellAt(offset(c, logU(cellWidth(res), 0.35), specialAzimuth()), res);
        return h ? h : p;
    }
    int k = ri(0, kmax);
    if (k == 0) return p;
    int64_t n;
    maxGridDiskSize(k, &n);
    std::vector<H3Index> out((size_t)n, 0);
    if (gridDisk(p, k, out.data())) return p;
    for (int tries = 0; tries < 8; tries++) {
        H3Index c = out[(size_t)ri(0, (int)n - 1)];
        if (c) return c;
    }
    return p;
}
inline LatLng pointFaceEdge(int res) {  // point on one of the 30 icosahedron edges, offset by 0..3 cell widths or by a distance of any scale
    const Ico &I = ico();
    int e = ri(0, 29);
    V3 a = toV(I.vert[I.edges[e][0]].lat, I.vert[I.edges[e][0]].lng), b = toV(I.vert[I.edges[e][1]].lat, I.vert[I.edges[e][1]].lng);
    double t;
    switch (rpick({3, 1, 2, 1})) {
        case 0: t = runit(); break;                                                  // anywhere along the edge
        case 1: t = ri(0, 1) ? runit() * 0.02 : 1 - runit() * 0.02; break;          // near a vertex
        case 2: t = 0.5 + (ri(0, 1) ? 1 : -1) * logU(1e-9, 0.5); break;             // any scale from the edge midpoint
        default: { double d = logU(1e-9, 0.5); t = ri(0, 1) ? d : 1 - d; break; }  // any scale from a vertex
    }
    LatLng p = toLL(lerpN(a, b, t));
    double off;
    switch (rpick({1, 2, 2})) {
        case 0: off = 0.0; break;
        case 1: off = runit() * 3.0 * cellWidth(res); break;
        default: off = logU(0.1 * cellWidth(res), 0.35); break;
    }
    return offset(p, off, runit() * 2 * PI);
}
inline LatLng pointFaceCentre(int res) {  // one of the 20 icosahedron face centres, offset by 0..4 cell widths or by a distance of any scale
    const Ico &I = ico();
    LatLng p = I.faceCentre[ri(0, 19)];
    double off;
    switch (rpick({1, 3, 2})) {
        case 0: off = 0.0; break;
        case 1: off = runit() * 4.0 * cellWidth(res); break;
        default: off = logU(0.1 * cellWidth(res), 0.6); break;
    }
    return offset(p, off, specialAzimuth());
}
inline LatLng pointUniform() { return {std::asin(2 * runit() - 1), (2 * runit() - 1) * PI}; }
inline LatLng pointPolar(int res) {
    double d = rpick({1, 1}) == 0 ? runit() * 4 * cellWidth(res) : runit() * 0.002;
    return {(ri(0, 1) ? 1 : -1) * (PI / 2 - d), (2 * runit() - 1) * PI};
}
inline LatLng pointAntimeridian(int res) {
    double d = (2 * runit() - 1) * 3 * cellWidth(res);
    double lng = PI + d;
    if (lng > PI) lng -= 2 * PI;
    return {std::asin(2 * runit() - 1) * 0.98, lng};
}

enum Arm { UNIFORM_INDEX = 0, PENT_CHAIN, PENT_DISK, FACE_EDGE, POLAR, ANTIMERIDIAN, UNIFORM_SPHERE, FACE_CENTRE, CENTRE_DESC, NARMS };
static const char *ARM_NAME[] = {"uniform-index", "pentagon-chain", "pentagon-disk", "face-edge", "polar", "antimeridian", "uniform-sphere", "face-centre", "centre-descendant"};

struct GCell {
    H3Index h;
    int arm;
};
inline H3Index cellCentreDesc(int res) {  // centre descendant (trailing zero digits) of a coarser cell; in a pentagon base cell half of the time
    int r0 = ri(0, res);
    H3Index a = ri(0, 1) ? cellPentChain(r0) : cellUniformIndex(r0);
    return ref::center_child(a, res);
}
inline GCell cellRes(int res, std::initializer_list<int> w = {3, 2, 4, 4, 1, 1, 1, 1, 2}) {
    int arm = rpick(w);
    H3Index h = 0;
    switch (arm) {
        case UNIFORM_INDEX: h = cellUniformIndex(res); break;
        case PENT_CHAIN: h = cellPentChain(res); break;
        case PENT_DISK: h = cellPentDisk(res, 4); break;
        case FACE_EDGE: h = cellAt(pointFaceEdge(res), res); break;
        case POLAR: h = cellAt(pointPolar(res), res); break;
        case ANTIMERIDIAN: h = cellAt(pointAntimeridian(res), res); break;
        case FACE_CENTRE: h = cellAt(pointFaceCentre(res), res); break;
        case CENTRE_DESC: h = cellCentreDesc(res); break;
        default: h = cellAt(pointUniform(), res); break;
    }
    return {h, arm};
}
inline GCell cell(int resLo = 0, int resHi = 15) { return cellRes(ri(resLo, resHi)); }

}  // namespace gen
