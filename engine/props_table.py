# Per-property configuration of the driver (see DESIGN.md §4). Case counts are per tier and per
# build variant; the driver divides them over the workers.
PROPS = {}
PENDING = {}  # property id -> reason it is not claimed

PROPS['C20'] = dict(
    src='props/C20.cpp', variants=['fast', 'asan'], level='exploration',
    rule=('rapidcheck-generated (value, buffer size) and parse strings plus complete strata (every 1-bit/2-bit/low-mask value x sizes 0..32); '
          'non-trivial = a formatting call with a buffer of >=1 byte, or a non-empty parse string; distinct by (kind, value/text, size)'),
    quick=dict(cases={'fast': 6_000_000, 'asan': 600_000}, enum={'fast': 2, 'asan': 2}),
    thorough=dict(cases={'fast': 200_000_000, 'asan': 20_000_000}, enum={'fast': 2, 'asan': 2}),
    strata=dict(quick=['all 1-bit, 2-bit and low-mask values x buffer sizes 0..32', 'all repeated-hex-digit strings of length 1..16', 'every printable non-hex first character'],
                thorough=['all 1-bit, 2-bit and low-mask values x buffer sizes 0..32', 'all repeated-hex-digit strings of length 1..16', 'every printable non-hex first character']),
    level_text='generated (value, buffer size) pairs and parse strings checked against a hand-written formatter/parser, under ASan/UBSan with exact-size guarded buffers, plus complete enumeration of the 1-bit/2-bit/low-mask strata for all buffer sizes 0..32; testing, not proof, over the 2^64 values',
    level_note='trusted: the hand-written reference renderer/parser in props/C20.cpp; prefixes sscanf may legitimately accept (white space, sign, 0x) are not judged',
    technique='property-based testing (rapidcheck): round trip + hand-written reference formatter/parser; exhaustive enumeration of small strata',
    assumptions=['reference renderer/parser written by hand (no printf/strtoull)', 'sscanf-permitted prefixes (white space, sign, 0x) are not asserted either way'],
)
