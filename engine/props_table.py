# Per-property configuration of the driver (see DESIGN.md §4). Case counts are per tier and per
# build variant; the driver divides them over the workers.
PROPS = {}
PENDING = {}  # property id -> reason it is not claimed

PROPS['C20'] = dict(
    src='props/C20.cpp', variants=['fast', 'asan'], level='exploration',
    rule=('rapidcheck-generated (value, buffer size) and parse strings plus complete strata (every 1-bit/2-bit/low-mask value x sizes 0..32); '
          'non-trivial = a formatting call with a buffer of >=1 byte, or a non-empty parse string; distinct by (kind, value/text, size)'),
    quick=dict(cases={'fast': 36_000_000, 'asan': 3_600_000}, enum={'fast': 2, 'asan': 2}),
    thorough=dict(cases={'fast': 200_000_000, 'asan': 20_000_000}, enum={'fast': 2, 'asan': 2}),
    strata=dict(quick=['all 1-bit, 2-bit and low-mask values x buffer sizes 0..32', 'all repeated-hex-digit strings of length 1..16', 'every printable non-hex first character'],
                thorough=['all 1-bit, 2-bit and low-mask values x buffer sizes 0..32', 'all repeated-hex-digit strings of length 1..16', 'every printable non-hex first character']),
    level_text='generated (value, buffer size) pairs and parse strings checked against a hand-written formatter/parser, under ASan/UBSan with exact-size guarded buffers, plus complete enumeration of the 1-bit/2-bit/low-mask strata for all buffer sizes 0..32; testing, not proof, over the 2^64 values',
    level_note='trusted: the hand-written reference renderer/parser in props/C20.cpp; prefixes sscanf may legitimately accept (white space, sign, 0x) are not judged',
    technique='property-based testing (rapidcheck): round trip + hand-written reference formatter/parser; exhaustive enumeration of small strata',
    assumptions=['reference renderer/parser written by hand (no printf/strtoull)', 'sscanf-permitted prefixes (white space, sign, 0x) are not asserted either way'],
)

PROPS['C01'] = dict(
    src='props/C01.cpp', variants=['fast', 'asan'], level='exploration',
    rule=('64-bit values: field-structured with planted single-rule violations, bit-flipped valid cells, raw; complete strata '
          '(res x base cell 0..127 x position x digit 0..7 x 7 backgrounds; all top bytes; all digit strings of length <=6 over 8 symbols '
          'with clean / dirty tails; all strings over {0,1,6,7} up to res 11); closure cases call every cell-producing API. '
          'non-trivial = the documented layout says valid, or exactly one rule is violated, or (closure) at least one cell was produced; distinct by value / call'),
    quick=dict(cases={'fast': 60_000_000, 'asan': 3_000_000}, enum={'fast': 8}),
    thorough=dict(cases={'fast': 1_000_000_000, 'asan': 40_000_000}, enum={'fast': 16}),
    strata=dict(quick=['(res, base cell 0..127, position 1..15, digit 0..7) x 7 backgrounds', 'all 256 top bytes x 16 res x 4 bodies',
                       'all digit strings of length <=6 over {0..7} x clean/dirty tails x base cells {0,4,117,121,122,127}', 'all strings over {0,1,6,7}, res<=11, base cells {0,4}'],
                thorough=['as quick with lengths <=7 and res<=13']),
    level_text=('isValidCell compared in both directions with a loop-based reference predicate written from the documented bit layout, on ~1e8 generated values '
                '(structured, planted violations, bit flips, raw) plus complete enumeration of the field-local strata (every res x base cell x position x digit); '
                'the closure clause applies the reference predicate to every cell returned by 19 groups of cell-producing API calls. Testing, not the symbolic decision over 2^64.'),
    level_note='trusted: engine/h3ref.hpp (self-tested at start-up on closed-form identities); the all-2^64 quantifier is approximated by exhaustive field-local strata + generated search',
    technique='property-based testing (rapidcheck) against a reference model + exhaustive enumeration of field-local strata',
    assumptions=['reference predicate in engine/h3ref.hpp follows website/docs/library/index/cell.md'],
)

PROPS['C04'] = dict(
    src='props/C04.cpp', variants=['fast', 'asan'], level='exploration',
    rule=('(cell, childRes) / (cell, parentRes) pairs: full child enumeration for depth differences <=6 (8 thorough), deep samples up to difference 15, '
          'converse (cell is among the children of every ancestor), error clauses; cells from the mixture with extra weight on pentagons and pentagon descendants. '
          'Complete strata: all 122 res-0 cells and all pentagons of all 16 res x every depth difference. '
          'non-trivial = depth difference >=1 (or an in-range error-clause argument); distinct by (kind, cell, res, seed)'),
    quick=dict(cases={'fast': 360_000, 'asan': 48_000}, enum={'fast': 4}),
    thorough=dict(cases={'fast': 1_500_000, 'asan': 150_000}, enum={'fast': 8}),
    strata=dict(quick=['all res-0 cells x depth 0..6 (full child arrays)', 'all pentagons res 1..15 x depth 0..6 (full) and x every child res (size, centre child, samples)'],
                thorough=['as quick with depth 0..8']),
    level_text=('cellToChildren/Size/CenterChild/Parent compared with a digit-string reference model of the hierarchy; output order, validity, parent link, centre coincidence '
                '(C02 tolerance) and the counting (pigeonhole) argument for the partition checked on every generated pair; exact-size guarded buffers under ASan'),
    level_note='trusted: engine/h3ref.hpp (self-tested); partition shown by count + distinctness + parent link per generated parent, not over all parents at once beyond res 0->k',
    technique='property-based testing (rapidcheck) against a digit-string reference model + enumeration of pentagon / res-0 strata',
    assumptions=['reference hierarchy model in engine/h3ref.hpp'],
)

PROPS['C13'] = dict(
    src='props/C13.cpp', variants=['fast', 'asan'], level='exploration',
    rule=('(parent, childRes, position) triples incl. sub-block boundaries, whole child arrays for depth differences <=6 (7 thorough), (child, every ancestor) pairs, '
          'error clauses; complete stratum: every pentagon parent of every res x every child res (whole array up to depth 5/7, first-level sub-block boundaries beyond). '
          'non-trivial = child res finer than parent res (or an in-range error argument); distinct by the case tuple'),
    quick=dict(cases={'fast': 800_000, 'asan': 60_000}, enum={'fast': 4}),
    thorough=dict(cases={'fast': 3_000_000, 'asan': 200_000}, enum={'fast': 8}),
    strata=dict(quick=['12 pentagons x 16 res x every child res: whole array (depth<=5) + sub-block boundaries'], thorough=['same with depth<=6']),
    level_text=('childPosToCell / cellToChildPos compared with the reference enumeration order on digit strings (lexicographic with the deleted digit-1 branch under a pentagon chain), '
                'round trip both ways, position-by-position agreement with cellToChildren, and the three documented error codes'),
    level_note='trusted: engine/h3ref.hpp child_at / child_pos (self-tested against each other and against monotonic order at start-up)',
    technique='property-based testing (rapidcheck) against a reference enumeration model; exhaustive over pentagon parents x depth',
    assumptions=['reference hierarchy model in engine/h3ref.hpp'],
)

PROPS['C06'] = dict(
    src='props/C06.cpp', variants=['fast', 'asan'], level='exploration',
    rule=('sets of distinct valid same-resolution cells assembled from building blocks (whole sub-trees 1..4 levels, sibling groups with members missing, complete/incomplete '
          'pentagon families, isolated cells, sub-trees with one deep cell missing, hexagon groups inside pentagon base cells), de-duplicated and presented permuted / sorted / reversed; '
          'sizes up to 2.5e3 (quick) / 1e5 (thorough). Complete stratum: every pentagon of res 0..14 x depth 1..3 (complete, reversed, one missing), every res-0 sub-tree. '
          'non-trivial = some block compacts by >=2 levels or a pentagon family compacts; distinct by the ordered cell list'),
    quick=dict(cases={'fast': 160_000, 'asan': 24_000}, enum={'fast': 4}),
    thorough=dict(cases={'fast': 600_000, 'asan': 60_000}, enum={'fast': 8}),
    strata=dict(quick=['12 pentagons x res 0..14 x family depth 1..3 (complete / reversed / one missing)', '122 res-0 sub-trees at res 1..3'],
                thorough=['as quick with depth 4', 'whole resolutions 1..4 as one shuffled set']),
    level_text=('compactCells output compared as a set with a reference canonical compaction on digit strings and checked directly for validity, no-ancestor and no-complete-sibling-set; '
                'uncompactCellsSize/uncompactCells round trip into exactly sized guarded buffers; E_MEMORY_BOUNDS at capacity |S|-1; E_RES_MISMATCH for coarser targets'),
    level_note='trusted: engine/h3ref.hpp (parent / children / pentagon predicates, canonical compaction)',
    technique='property-based testing (rapidcheck): reference-model differential + round trip + invariants; enumeration of pentagon-family strata',
    assumptions=['reference canonical compaction in engine/h3ref.hpp'],
)

PROPS['C03'] = dict(
    src='props/C03.cpp', variants=['fast', 'asan'], level='exploration',
    rule=('round trip latLngToCell(cellToLatLng(h)) == h on cells from the stress mixture (uniform index, pentagon chains/disks, icosahedron edges, face centres, poles, antimeridian) '
          'at all 16 res; complete strata: every cell of res 0..4 (0..6 thorough) enumerated by the reference model, k<=6 (30) disks of all pentagons at all res, bands along all 30 '
          'icosahedron edges res<=5 (8), disks around the 20 face centres at all res; per-base-cell enumeration identity (library children vs all digit strings accepted by the documented '
          'predicate; count, xor, sum) for res<=5 (7); getNumCells/getPentagons/getRes0Cells identities for all res. '
          'non-trivial = res>=3 or a cell of a pentagon base cell, or an enumeration identity; distinct by cell / (res, base cell)'),
    quick=dict(cases={'fast': 18_000_000, 'asan': 1_800_000}, enum={'fast': 8}),
    thorough=dict(cases={'fast': 100_000_000, 'asan': 6_000_000}, enum={'fast': 16}),
    strata=dict(quick=['all cells res 0..4 (round trip)', 'per-base-cell enumeration identity res 0..5', 'k=6 disks of 12 pentagons x 16 res', 'edge bands res 0..5', 'k=3 disks at 20 face centres x 16 res', 'global count identities res 0..15'],
                thorough=['all cells res 0..6', 'enumeration identity res 0..7', 'k=30 pentagon disks', 'edge bands res 0..8', 'k=8 face-centre disks']),
    level_text=('centre round trip on every cell of the coarse resolutions and of the pentagon / icosahedron-edge / face-centre neighbourhoods, generated search elsewhere; '
                'cell counts settled by comparing the library enumeration with an independent enumeration of all indexes the documented layout admits'),
    level_note='trusted: engine/h3ref.hpp; the fine resolutions are sampled (5.7e14 cells cannot be enumerated)',
    technique='property-based testing (rapidcheck): round trip + reference-model enumeration differential; exhaustive coarse resolutions and seam neighbourhoods',
    assumptions=['reference model in engine/h3ref.hpp'],
)

PROPS['C02'] = dict(
    src='props/C02.cpp', variants=['fast', 'asan'], level='exploration',
    rule=('(lat, lng, res) triples: points 1e-1..1e-13 of the centre distance inside/outside cell edges and corners (cells from the stress mixture: pentagon disks, icosahedron edges, '
          'face centres, poles, antimeridian, centre descendants), exact corners/edge points, icosahedron edges/vertices, poles (pi/2 - 10^-k), antimeridian (pi - 10^-k), the outer '
          'longitude range, arbitrary finite doubles, invalid res / non-finite; complete stratum: all boundary vertices and edge midpoints of every pentagon and pentagon neighbour at all res '
          'x offsets {0, +-1e-3, 1e-6, 1e-9, 1e-12}. non-trivial = the point lies within 1e-3 of the centre distance of an edge, is outside by rounding, or belongs to the '
          'icosahedron/pole/antimeridian/outer-range/face-centre arms, or exercises the second/third clause; distinct by (lat bits, lng bits, res)'),
    quick=dict(cases={'fast': 7_200_000, 'asan': 600_000}, enum={'fast': 4}),
    thorough=dict(cases={'fast': 100_000_000, 'asan': 5_000_000}, enum={'fast': 4}),
    strata=dict(quick=['vertices + edge midpoints of all pentagons and their neighbours, 16 res, 9 offsets'], thorough=['same']),
    level_text=('containment of the generated point in cellToBoundary(latLngToCell(point)) decided in a gnomonic chart with binary128 arithmetic and the tolerance of the statement '
                '(max(2e-12, 4e-15/cos lat)); validity and resolution of the result for all finite inputs; the two named error codes with an untouched output word'),
    level_note='trusted: cellToBoundary / cellToLatLng as the geometric reference (as the statement prescribes; pinned independently by C03, C08, C19); libquadmath',
    technique='property-based testing (rapidcheck) with a binary128 geometric containment oracle; edge/corner-targeted generators',
    assumptions=['cellToBoundary is the geometric reference (statement)', 'binary128 arithmetic error (1e-30) is negligible against the 2e-12 tolerance'],
)

PROPS['C05'] = dict(
    src='props/C05.cpp', variants=['fast', 'asan'], level='exploration',
    rule=('(origin, k): k=1 neighbourhoods compared with GEOMETRIC neighbours (latLngToCell of a point just across each boundary segment), symmetry, areNeighborCells on adjacent / '
          'distance-2 / sibling / far pairs; whole family (gridDisk, gridDiskDistances, gridDiskDistancesSafe, three Unsafe disks, gridRingUnsafe, gridDisksUnsafe) against a reference '
          'BFS over the geometric graph. Origins from the stress mixture (pentagon disks and icosahedron edges dominant, polar pentagons weighted). Complete strata: every cell of '
          'res 0..2 (k=1), every res-0 origin x k<=12, every res-1 origin x k<=30, sampled res-2 origins x k up to 72 (disks wrapping the globe), every pentagon and pentagon '
          'neighbour of every res x k<=5. non-trivial = the disk contains a pentagon or crosses a base-cell boundary (always for k=1 checks); distinct by (kind, origin, k, partner)'),
    quick=dict(cases={'fast': 120_000, 'asan': 12_000}, enum={'fast': 8}),
    thorough=dict(cases={'fast': 1_500_000, 'asan': 100_000}, enum={'fast': 16}),
    strata=dict(quick=['all cells res 0..2: k=1 + areNeighborCells', 'res 0: all origins x k 0..12', 'res 1: all origins x k 0,3,..,30', 'res 2: sampled origins x k in {2,5,9,14,23,37,55,72}', 'all pentagons + neighbours, 16 res, k 0..5'],
                thorough=['all cells res 0..3 (k=1)', 'res 1: all k 0..30', 'res 2: every 3rd origin of every base cell', 'pentagon neighbourhoods k 0..12']),
    level_text=('the neighbour relation is re-derived from geometry (a path through the face/base-cell lookup tables that traversal does not use) and every member of the gridDisk family is compared '
                'with a reference BFS on it; the unsafe variants must fail or return exactly the ring-ordered disk; buffers are exactly maxGridDiskSize(k) slots with guards/ASan'),
    level_note='trusted: latLngToCell/cellToBoundary as geometric oracle of adjacency (validated by C02/C08); cells within a few dozen cell widths of a pole at res>=14 are unprobeable and discarded (counted)',
    technique='property-based testing (rapidcheck): differential against a geometry-derived neighbour graph + reference BFS; exhaustive coarse resolutions',
    assumptions=['geometric neighbour probes (engine/topo.hpp) define adjacency'],
)

PROPS['C08'] = dict(
    src='props/C08.cpp', variants=['fast', 'asan'], level='exploration',
    rule=('cells from the stress mixture (icosahedron-edge and pentagon-disk arms dominant) with all their geometric neighbours; complete strata: every cell of res 0..3 (4), k<=2 disks of all '
          'pentagons at all res, all cells along the 30 icosahedron edges for res<=5 (7), whole-resolution area sums res 0..4 (6). '
          'non-trivial = the cell or one of its neighbours is a pentagon or has a distortion vertex (boundary vertex count != 6), or a whole-resolution sum; distinct by cell'),
    quick=dict(cases={'fast': 450_000, 'asan': 30_000}, enum={'fast': 8}),
    thorough=dict(cases={'fast': 5_000_000, 'asan': 200_000}, enum={'fast': 16}),
    strata=dict(quick=['all cells res 0..3', 'k=2 disks of 12 pentagons x 16 res', 'icosahedron-edge cells res 1..5', 'area sums res 0..4'],
                thorough=['all cells res 0..4', 'icosahedron-edge cells res 1..7', 'area sums res 0..6']),
    level_text=('vertex counts per class/parity, counter-clockwise fan triangles around the centre, vertex-for-vertex matching (1e-12 rad) of the stretch shared with every geometric neighbour traversed in reverse, '
                'exact once-only coverage of every boundary segment, cellAreaRads2 against the binary128 spherical area of the boundary (rel 1e-9), unit conversions, and sum = 4*pi over whole coarse resolutions'),
    level_note='trusted: binary128 spherical area (Van Oosterom-Strackee fan); geometric neighbour probes; tolerance 1e-9 relative on areas is >3 orders above the measured error (5.6e-12)',
    technique='property-based testing (rapidcheck) with binary128 geometric oracles (shared-vertex matching, spherical area); exhaustive coarse resolutions',
    assumptions=['great-circle edges between consecutive boundary vertices (statement)'],
)

PROPS['C19'] = dict(
    src='props/C19.cpp', variants=['fast', 'asan'], level='exploration',
    rule=('cells from the icosahedron-edge / pentagon-disk dominated mixture at all 16 res; complete strata: every cell of res 0..3 (5), k<=3 disks of all pentagons at all res, all cells '
          '(with neighbours) along the 30 icosahedron edges for res<=6 (8). non-trivial = the oracle finds the cell interior on >=2 faces; distinct by cell'),
    quick=dict(cases={'fast': 450_000, 'asan': 30_000}, enum={'fast': 8}),
    thorough=dict(cases={'fast': 5_000_000, 'asan': 200_000}, enum={'fast': 16}),
    strata=dict(quick=['all cells res 0..3', 'k=3 disks of 12 pentagons x 16 res', 'edge bands res 1..6'], thorough=['all cells res 0..5', 'edge bands res 1..8']),
    level_text=('the reported face set is compared with a binary128 clipping oracle: the boundary polygon is clipped against each face region (nearest-face-centre cells); area share >1e-6 must be reported, '
                '<1e-9 must not be, in between undecided; slot count, padding, distinctness and the 5 / 1-2 face counts are checked on guarded exact-size buffers'),
    level_note='trusted: the 20 face-centre constants with the library numbering (cross-checked against the icosahedron derived from the pentagon centres); cellToBoundary as the cell shape (C08)',
    technique='property-based testing (rapidcheck) with a binary128 polygon-clipping oracle; exhaustive coarse resolutions and icosahedron-edge bands',
    assumptions=['face numbering constants are specification', 'undecided band 1e-9..1e-6 of the cell area'],
)

PROPS['C10'] = dict(
    src='props/C10.cpp', variants=['fast', 'asan'], level='exploration',
    rule=('origin cells from the stress mixture with all geometric neighbours, distance-2 cells and a random far cell; 64-bit edge candidates (valid origins x direction 0..7, wrong mode, '
          'damaged origins, pentagon origins with direction 1, bit flips, raw); complete strata: all cells of res 0..3 (4) as origins, all pentagons of all res x 16 modes x 8 direction values, '
          'pentagon neighbourhoods as origins. non-trivial = origin or a neighbour is a pentagon / has a distortion vertex, or a candidate with mode 2; distinct by (kind, index, partner)'),
    quick=dict(cases={'fast': 600_000, 'asan': 50_000}, enum={'fast': 8}),
    thorough=dict(cases={'fast': 4_000_000, 'asan': 200_000}, enum={'fast': 16}),
    strata=dict(quick=['all cells res 0..3 as origins', '12 pentagons x 16 res x 16 modes x 8 directions', 'pentagon k=1 disks as origins'], thorough=['all cells res 0..4 as origins']),
    level_text=('encode/decode round trips for every geometric neighbour pair, originToDirectedEdges = exactly those edges, E_NOT_NEIGHBORS elsewhere, isValidDirectedEdge against the documented form in both directions, '
                'directedEdgeToBoundary = the C08 shared stretch (1e-12 rad) and the reverse of the opposite edge, edgeLength* = binary128 arc length'),
    level_note='trusted: geometric neighbour probes and shared-run matching (engine/topo.hpp), engine/h3ref.hpp edge predicate',
    technique='property-based testing (rapidcheck): round trip + reference predicate + binary128 geometric oracle',
    assumptions=['edge boundary follows the origin cell\'s counter-clockwise boundary order'],
)

PROPS['C11'] = dict(
    src='props/C11.cpp', variants=['fast', 'asan'], level='exploration',
    rule=('cells from the stress mixture with all geometric neighbours and distance-2 cells: slots, corner geometry, three-cell sharing, two-vertex adjacency criterion, all 8 vertex numbers named '
          'through the cell and each neighbour (canonical vs non-canonical), out-of-range vertex numbers; 64-bit candidates (mode, owner damage, bit flips, raw); complete strata: all cells of '
          'res 0..3 (4), k<=2 disks of all pentagons at all res, global 2N-4 / three-times identity for res 0..4 (6). '
          'non-trivial = the cell or a neighbour is a pentagon or has distortion vertices, a mode-4 candidate over a valid owner, or a global identity; distinct by (kind, index)'),
    quick=dict(cases={'fast': 500_000, 'asan': 40_000}, enum={'fast': 8}),
    thorough=dict(cases={'fast': 3_000_000, 'asan': 150_000}, enum={'fast': 16}),
    strata=dict(quick=['all cells res 0..3', 'k=2 disks of 12 pentagons x 16 res', '2N-4 identity res 0..4'], thorough=['all cells res 0..4', '2N-4 identity res 0..6']),
    level_text=('topological corners are identified from geometry alone (a boundary vertex lying on two neighbours is a corner, on one a distortion vertex); slot i must sit on corner i (1e-12 rad), the three cells at a corner must produce '
                'one identical index, neighbours share exactly two indexes, every non-produced (cell, vertexNum) naming must be rejected by isValidVertex, and whole resolutions must have exactly 2N-4 indexes each produced three times'),
    level_note='trusted: geometric neighbour probes / shared-run matching; "canonical" for raw 64-bit candidates is defined as "produced by cellToVertexes of the owner", whose production is validated geometrically',
    technique='property-based testing (rapidcheck): geometric corner oracle + sharing invariants + global counting identity',
    assumptions=['boundary vertex 0 is topological corner 0 (documented boundary order)'],
)

PROPS['C09'] = dict(
    src='props/C09.cpp', variants=['fast', 'asan'], level='exploration',
    rule=('(origin, radius K): reference BFS ball over the geometric neighbour graph (exact distances inside the ball), gridDistance both ways for every cell of the ball, IJ round trips, unit-step '
          'property where the ball holds no pentagon; resolution mismatches; (origin, i, j) probes incl. +-INT32_MAX extremes under UBSan; complete strata: every ordered pair of res 0 and res 1 '
          '(res 2: every 7th origin quick, all origins thorough), balls around the k<=2 disks of all pentagons at all res. '
          'non-trivial = the ball contains a pentagon or crosses a base-cell seam, a successful IJ probe, a mismatch pair, a whole-globe origin; distinct by the case tuple'),
    quick=dict(cases={'fast': 400_000, 'asan': 30_000}, enum={'fast': 8}),
    thorough=dict(cases={'fast': 1_500_000, 'asan': 80_000}, enum={'fast': 16}),
    strata=dict(quick=['all ordered pairs res 0, res 1; res 2 from every 7th origin', 'res 3: every cell within 9 steps of each pentagon as origin x every cell within 14 steps of it', 'radius-6 balls around k<=2 disks of 12 pentagons x 16 res'], thorough=['all ordered pairs res 0..2', 'radius-16 balls around pentagon disks']),
    level_text=('every successful gridDistance is compared with the breadth-first distance on a neighbour graph derived from geometry (whole globe at res 0-2, balls of radius <=20/30 elsewhere); symmetry, 0 for a=b, success and 1 for all neighbours; '
                'cellToLocalIj/localIjToCell mutually inverse wherever both succeed, results valid cells of the origin resolution, unit steps between neighbours away from pentagons, extreme IJ without UB'),
    level_note='trusted: geometric neighbour graph (engine/topo.hpp); gridDistance/cellToLocalIj failures are allowed wherever the statement allows them (only a=b and neighbours must succeed)',
    technique='property-based testing (rapidcheck): reference BFS differential + round trip; exhaustive all-pairs at coarse resolutions',
    assumptions=['a BFS ball of radius K contains every shortest path of length <= K from its centre'],
)

PROPS['C14'] = dict(
    src='props/C14.cpp', variants=['fast', 'asan'], level='exploration',
    rule=('(start, end) pairs: every cell of a reference BFS ball (radius <=10 quick / 20 thorough) around origins from the stress mixture as end (exact distance known), both directions for a=b and neighbours; '
          'explicit pairs up to ~600 cells apart at fine resolutions (long paths); complete strata: every origin of res 0-1 (0-2) x radius 4 (8), k<=2 disks of all pentagons at all res x radius 4 (8). '
          'non-trivial = the ball contains a pentagon or crosses a base-cell seam, or a path of >=100 cells; distinct by the case tuple'),
    quick=dict(cases={'fast': 160_000, 'asan': 16_000}, enum={'fast': 8}),
    thorough=dict(cases={'fast': 800_000, 'asan': 50_000}, enum={'fast': 16}),
    strata=dict(quick=['all origins res 0..1 x radius-4 balls', 'pentagon k<=2 disks x 16 res x radius-4 balls'], thorough=['all origins res 0..2 x radius-8 balls', 'pentagon disks x radius-8 balls']),
    level_text=('validity predicate over the path: exactly gridPathCellsSize = gridDistance+1 cells in an exactly sized guarded buffer, first = start, last = end, every cell valid and a geometric neighbour of its predecessor, '
                'length = reference BFS distance + 1 where that is known; must succeed for a=b and every neighbour pair; guard words intact on failure'),
    level_note='trusted: geometric neighbour graph (engine/topo.hpp); for long paths the exact distance is not recomputed (contiguity + announced length + C09 give shortestness)',
    technique='property-based testing (rapidcheck): validity predicate over the produced path + reference BFS distance',
    assumptions=['C09 (gridDistance is the graph distance) for shortestness of long paths'],
)

PROPS['C07'] = dict(
    src='props/C07.cpp', variants=['fast', 'asan'], level='exploration',
    rule=('well-formed polygons by construction: star-shaped outer loop in the tangent plane under a linear map (rotation, squash to needles 0.05-0.8 cell wide) with 0-3 star-shaped holes in disjoint discs; '
          'shape arms (convex-ish, concave star, needle, smaller than a cell, large, triangle/quad) drawn independently of location arms (uniform, pentagon, antimeridian, high latitude, icosahedron edge, southern), '
          'all 16 res, up to ~400 (quick) / 8e3 (thorough) cells. Stratum: boundaries of all res 0-1 cells and of all pentagons res<=6 (12) filled one and two levels finer. '
          'non-trivial = at least one candidate centre decided inside and one decided outside; distinct by polygon + res'),
    quick=dict(cases={'fast': 104_000, 'asan': 10_400}, enum={'fast': 4}),
    thorough=dict(cases={'fast': 300_000, 'asan': 20_000}, enum={'fast': 8}),
    strata=dict(quick=['cell boundaries of all res 0..1 cells and pentagons res 2..6 as polygons, filled at +1/+2', 'pruning boundary: ancestors around the 20 face centres x res 0..14 x depth 1..3 x N/S/E/W-most descendant, tiny polygon around it'], thorough=['pentagons up to res 12']),
    level_text=('both fill algorithms are compared cell by cell with an independent binary128 crossing-number test of every candidate centre (candidates enumerated independently of the fill; centres within 1e-11 rad of an edge are undecided), '
                'duplicates, validity and the announced maximum size are checked with exactly sized guarded buffers under ASan'),
    level_note='trusted: cellToLatLng as the centre (C03), gridDisk only to enumerate candidates (C05); planar lat/lng reading in the frame unwrapped around the polygon centre; undecided band 1e-11 rad',
    technique='property-based testing (rapidcheck): differential against an independent point-in-polygon oracle over an independently enumerated candidate set; legacy vs experimental',
    assumptions=['polygons span < pi in longitude and contain no pole (by construction)'],
)

PROPS['C15'] = dict(
    src='props/C15.cpp', variants=['fast', 'asan'], level='exploration',
    rule=('well-formed polygons as in C07 (narrower than 180 degrees; with holes that contain whole cells, holes smaller than a cell inside one cell, polygons smaller than a cell, needles, transmeridian, pentagon / icosahedron-edge / '
          'coarse-ancestor locations) x all 16 res x the four modes x every candidate cell near the polygon; invalid flag words. '
          'non-trivial = at least one cell with a decided overlap witness and one decided disjoint cell; distinct by polygon + res'),
    quick=dict(cases={'fast': 3_600, 'asan': 300}, enum={'fast': 8}),
    thorough=dict(cases={'fast': 70_000, 'asan': 5_000}, enum={'fast': 8}),
    strata=dict(quick=['k<=2 disks of both pole cells x 16 res: 2 % diamond around every boundary vertex, 10 % triangle around every edge midpoint'], thorough=['same']),
    level_text=('sandwich oracle in binary128 with a 1e-9 rad margin plus the chord/great-circle bulge of each cell edge: FULL only if centre and vertices are inside, FULL if the cell is wholly interior, OVERLAPPING if a decided witness exists '
                '(centre / cell vertex / polygon vertex inside the other shape, robustly crossing edges) and never if the shapes are separated; exact nesting FULL<=CENTER<=OVERLAPPING<=OVERLAPPING_BBOX, no duplicates, size bound with exactly sized guarded buffers, '
                'E_MEMORY_BOUNDS at capacity count-1 and 0, E_OPTION_INVALID for invalid flags'),
    level_note='trusted: planar lat/lng reading in the frame made continuous along the outer loop; claims are made only where chord and great-circle readings of the cell agree; pole cells and frame-ambiguous cells are not judged',
    technique='property-based testing (rapidcheck): necessary/sufficient-condition (sandwich) oracle per candidate cell + metamorphic nesting relation between modes',
    assumptions=['polygons narrower than 180 degrees (the wide ones are C07 known findings)'],
)

PROPS['C16'] = dict(
    src='props/C16.cpp', variants=['fast', 'asan'], level='exploration', alloc_copy=True,
    rule=('sets of distinct same-resolution cells: filled disks, disks with 10-50% of the cells removed (holes, islands), alternating distance bands (island inside ring inside ring: nested holes), several components, '
          'nested rings plus extra components, strips; origins uniform / at pentagons / on the antimeridian / on icosahedron edges; all 16 res, presented in a generated order; complete strata: k=1,2 disks and k=2 rings '
          'around every cell of res 0..2 (3) and k<=3 around every pentagon of res 3..15. Not generated: sets reaching within 0.27 rad of a pole. '
          'non-trivial = the outline has a hole or more than one component; distinct by the cell set'),
    quick=dict(cases={'fast': 120_000, 'asan': 12_000}, enum={'fast': 4}),
    thorough=dict(cases={'fast': 600_000, 'asan': 40_000}, enum={'fast': 8}),
    strata=dict(quick=['k=1,2 disks and k=2 rings around all cells res 0..2', 'k<=3 disks/rings around 12 pentagons x res 3..15'], thorough=['all cells res 0..3']),
    level_text=('polygon count = number of edge-connected components (union-find over geometric adjacency), counter-clockwise outer loops and clockwise holes by signed binary128 spherical area, every loop >=3 vertices, every vertex a boundary vertex of an input cell, '
                'enclosed area = sum of cell areas, per-polygon areas matching the component areas one to one (hole attached to the right polygon), and a model allocator behind the second library copy: zero live blocks after destroyLinkedMultiPolygon and after any error'),
    level_note='trusted: geometric neighbour graph, binary128 spherical areas with tolerance 1e-9*area + 1e-12*perimeter (sliver effect of ulp-level vertex mismatch, measured), model allocator; footprints near a pole are not generated (stated narrowing)',
    technique='property-based testing (rapidcheck): invariants over the produced outline (component count, winding, provenance, area identities) + allocator model',
    assumptions=['sets stay away from the poles (planar lat/lng polygon model of the library)'],
)

PROPS['C17'] = dict(
    src='props/C17.cpp', variants=['fast', 'asan'], level='fault_enumeration', alloc_copy=True,
    rule=('(function, input) pairs for compactCells (multi-round sub-trees, partial groups, pentagon families; duplicates / reserved bits / invalid cells), gridDisk and gridDiskDistances (pentagon neighbourhoods and ordinary cells, k<=6), '
          'areNeighborCells (pairs around pentagons, other resolutions), polygonToCells, polygonToCellsExperimental (4 modes) and maxPolygonToCellsSizeExperimental (polygons with 0-3 holes near/away from pentagons, bad flags, empty loop); '
          'for each input the number N of allocations is measured and EVERY allocation index 1..N is failed, once alone and once together with all later ones; stratum: all pentagons and their neighbours at all res. '
          'non-trivial = N >= 2 or an error-path input; distinct by (function, input)'),
    quick=dict(cases={'fast': 240_000, 'asan': 24_000}, enum={'fast': 4}),
    thorough=dict(cases={'fast': 1_500_000, 'asan': 100_000}, enum={'fast': 8}),
    strata=dict(quick=['12 pentagons + neighbours x 16 res: gridDisk/gridDiskDistances k=1..3, areNeighborCells over the k=1 disk, parent-boundary polygon through the three polygon functions x 4 modes'], thorough=['k=1..5']),
    level_text=('fault enumeration: complete over the allocation index for every generated input (every allocation the call makes is failed in turn, single and sticky); after each run the model allocator must hold no live block and have seen no invalid free, '
                'the return code must be E_MEMORY_ALLOC; without faults: no live block at return on success and on every error path, and results identical to the default-allocator copy of the library linked into the same binary'),
    level_note='trusted: the model allocator (engine/allocmodel.hpp) and the two-copies build (H3_PREFIX=va_, H3_ALLOC_PREFIX=verif_, symbols localised with objcopy); complete per input, sampled over inputs',
    technique='fault injection with exhaustive enumeration of the failing allocation index per generated input (rapidcheck inputs) + allocator model + differential against the default allocator',
    assumptions=['allocation sequence of a call is deterministic for a fixed input (checked: the planned allocation must be reached)'],
)

PROPS['C12'] = dict(
    src='fuzz/C12_vm.cpp', runner_src='fuzz/C12_run.cpp', variants=['fuzz'], level='exploration', driver='fuzzdriver', engine='libfuzzer',
    rule=('coverage-guided (libFuzzer) byte strings decoded into API programs: 8 index registers initialised from 16 constructions '
          '(raw, valid, pentagon, pentagon descendant, bit flips, wrong mode/reserved bits, planted 7, deleted sub-sequence, edge/vertex shaped, neighbours) '
          'followed by up to 12 calls over 60 API functions with class-decoded ints/doubles/polygons/cell sets and exactly-sized heap buffers; '
          'non-trivial = a program in which at least one API call was executed and judged; distinct by the sequence of (function, return code, argument classes)'),
    quick=dict(runs=2_400_000, max_total_time=70, enum_payloads=48),
    thorough=dict(runs=60_000_000, max_total_time=1500, enum_payloads=1024),
    level_text=('libFuzzer campaign (16 processes, shared corpus, committed seed corpus) over byte strings decoded into short API programs; the library is built with '
                'ASan+UBSan and without NDEBUG, every output buffer is a heap block of exactly the documented size; the target itself checks that every return '
                'code is one of the 16 documented ones, that out-of-domain scalar arguments yield their documented code (table restricted to codes named in the '
                'property statements / API docs), and that successful calls on valid cells return valid cells. Exploration: no absence claim for argument '
                'combinations the decoder reaches only with low probability.'),
    level_note=('trusted: ASan/UBSan/assert as crash oracles, engine/h3ref.hpp for validity; work bounds (size caps, polygon extent vs resolution) skip calls that '
                'would iterate over >1e4 cells; gridRingUnsafe with k<0 has no documented buffer size and is not called'),
    technique='coverage-guided fuzzing (libFuzzer + ASan + UBSan, assertions on) with a structure-aware decoder and an in-target return-code / closure oracle',
    assumptions=['calls whose documented buffer size exceeds the work caps are skipped (counted as calls_skipped_by_size_cap)',
                 'timeout/oom/slow-unit artifacts are load noise, not violations',
                 'gridRingUnsafe(k<0) and gridDisksUnsafe(length<0) have no documented buffer size: outside the premise, not called'],
)

PROPS['C18'] = dict(
    src='props/C18.cpp', variants=['fast', 'tsan'], shared_lib=['fast'], cxxflags='-DVERIF_DIR=/verif', level='exploration',
    rule=('API programs (engine/apivm.hpp: ~60 API functions, valid / near-valid / out-of-domain arguments) from three sources — the committed C12 seed corpus with '
          '0-3 byte mutations, single-function templates over eight valid registers, random bytes — executed by T in {2,3,4,8,16} threads released from a barrier '
          '(two repetitions each) and once sequentially; non-trivial = at least one API call executed on at least two threads; distinct by (program bytes, T, order)'),
    quick=dict(cases={'fast': 168_000, 'tsan': 28_000}, workers={'fast': 8, 'tsan': 8}, enum={'fast': 2, 'tsan': 2}),
    thorough=dict(cases={'fast': 4_000_000, 'tsan': 700_000}, workers={'fast': 8, 'tsan': 8}, enum={'fast': 2, 'tsan': 2}),
    strata=dict(quick=['the first 1500 programs of the C12 seed corpus, T=4, both variants'], thorough=['every program of the C12 seed corpus, T=4, both variants']),
    level_text=('generated multi-threaded API programs with three oracles: (1) every thread observes byte-for-byte what the sequential execution observes (digest of all return '
                'codes, scalar outputs and output buffers); (2) the writable segments (.data/.bss/GOT) of the library, linked as a shared object bound at load, are '
                'byte-identical to their state before the first API call after every program — deterministic, independent of scheduling; (3) ThreadSanitizer build: '
                'no data-race report while the threads run (threads run before the sequential reference, so first-call initialisation is concurrent). '
                'We do not own the scheduler: interleavings are sampled, not enumerated; oracle (2) is what makes hidden static state visible without luck.'),
    level_note=('trusted: ThreadSanitizer happens-before detection (history_size=4), dl_iterate_phdr segment discovery; a defect reachable only through arguments the '
                'program generator does not produce stays invisible; state that is written and restored within one call is only visible to oracles (1) and (3)'),
    technique='property-based testing (rapidcheck) of multi-threaded API programs: concurrent-vs-sequential differential, writable-segment snapshot invariant, ThreadSanitizer',
    assumptions=['interleavings are sampled by the OS scheduler, not enumerated', 'work caps of the API VM bound the size of disks, fills and paths'],
)
