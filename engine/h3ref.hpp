// h3ref.hpp — reference model of the H3 index, written from website/docs/library/index/cell.md
// and the property statements. Plain loops over an unpacked struct; no library headers, no bit tricks
// shared with the implementation.
#pragma once
#include <cstdint>
#include <algorithm>
#include <map>
#include <set>
#include <vector>

namespace ref {

struct Idx {
    int high = 0, mode = 1, reserved = 0, res = 0, bc = 0;
    int d[16] = {0};  // d[1..15]
};

inline Idx unpack(uint64_t h) {
    Idx x;
    x.high = (int)(h >> 63);
    x.mode = (int)((h >> 59) % 16);
    x.reserved = (int)((h >> 56) % 8);
    x.res = (int)((h >> 52) % 16);
    x.bc = (int)((h >> 45) % 128);
    for (int r = 1; r <= 15; r++) x.d[r] = (int)((h >> (3 * (15 - r))) % 8);
    return x;
}
inline uint64_t pack(const Idx &x) {
    uint64_t h = 0;
    h += (uint64_t)x.high << 63;
    h += (uint64_t)x.mode << 59;
    h += (uint64_t)x.reserved << 56;
    h += (uint64_t)x.res << 52;
    h += (uint64_t)x.bc << 45;
    for (int r = 1; r <= 15; r++) h += (uint64_t)x.d[r] << (3 * (15 - r));
    return h;
}

static const int PENT_BC[12] = {4, 14, 24, 38, 49, 58, 63, 72, 83, 97, 107, 117};
inline bool is_pent_bc(int bc) {
    for (int p : PENT_BC)
        if (p == bc) return true;
    return false;
}

// cell.md: high bit 0, mode 1, reserved 0, base cell < 122, digits 1..res in 0..6, later digits 7,
// pentagon base cell => first non-zero digit is not 1
inline bool valid_cell_x(const Idx &x) {
    if (x.high != 0) return false;
    if (x.mode != 1) return false;
    if (x.reserved != 0) return false;
    if (x.bc >= 122) return false;
    int first = 0;
    for (int r = 1; r <= 15; r++) {
        if (r <= x.res) {
            if (x.d[r] == 7) return false;
            if (first == 0 && x.d[r] != 0) first = x.d[r];
        } else if (x.d[r] != 7)
            return false;
    }
    if (is_pent_bc(x.bc) && first == 1) return false;
    return true;
}
inline bool valid_cell(uint64_t h) { return valid_cell_x(unpack(h)); }

// number of violated rules (for the "near-valid" classification)
inline int rules_violated(uint64_t h) {
    Idx x = unpack(h);
    int n = 0;
    if (x.high) n++;
    if (x.mode != 1) n++;
    if (x.reserved) n++;
    if (x.bc >= 122) n++;
    int first = 0, bad7 = 0, badtail = 0;
    for (int r = 1; r <= 15; r++) {
        if (r <= x.res) {
            if (x.d[r] == 7) bad7 = 1;
            if (!first && x.d[r] && x.d[r] != 7) first = x.d[r];
        } else if (x.d[r] != 7)
            badtail = 1;
    }
    n += bad7 + badtail;
    if (x.bc < 122 && is_pent_bc(x.bc) && first == 1) n++;
    return n;
}

inline bool is_pentagon(uint64_t h) {  // for valid cells
    Idx x = unpack(h);
    if (!is_pent_bc(x.bc)) return false;
    for (int r = 1; r <= x.res; r++)
        if (x.d[r] != 0) return false;
    return true;
}
inline int res_of(uint64_t h) { return unpack(h).res; }

inline uint64_t parent(uint64_t h, int pres) {
    Idx x = unpack(h);
    for (int r = pres + 1; r <= 15; r++) x.d[r] = 7;
    x.res = pres;
    return pack(x);
}
inline uint64_t center_child(uint64_t h, int cres) {
    Idx x = unpack(h);
    for (int r = x.res + 1; r <= cres; r++) x.d[r] = 0;
    x.res = cres;
    return pack(x);
}
inline int64_t ipow7(int n) {
    int64_t p = 1;
    for (int i = 0; i < n; i++) p *= 7;
    return p;
}
inline int64_t hex_children(int n) { return ipow7(n); }
inline int64_t pent_children(int n) { return 1 + 5 * (ipow7(n) - 1) / 6; }
inline int64_t children_count(uint64_t h, int cres) {
    int n = cres - res_of(h);
    return is_pentagon(h) ? pent_children(n) : hex_children(n);
}
inline int64_t num_cells(int r) { return 2 + 120 * ipow7(r); }

// i-th child in increasing index order = lexicographic order of the appended digit strings,
// with the digit-1 branch absent directly under a pentagon chain
inline uint64_t child_at(uint64_t p, int cres, int64_t pos) {
    Idx x = unpack(p);
    bool pent = is_pentagon(p);
    int r0 = x.res;
    for (int r = r0 + 1; r <= cres; r++) {
        int below = cres - r;  // levels below this digit
        int chosen = -1;
        for (int dg = 0; dg <= 6; dg++) {
            if (pent && dg == 1) continue;
            int64_t sz = (pent && dg == 0) ? pent_children(below) : hex_children(below);
            if (pos < sz) {
                chosen = dg;
                break;
            }
            pos -= sz;
        }
        x.d[r] = chosen;
        if (chosen != 0) pent = false;
    }
    x.res = cres;
    return pack(x);
}
inline int64_t child_pos(uint64_t child, int pres) {
    Idx x = unpack(child);
    uint64_t p = parent(child, pres);
    bool pent = is_pentagon(p);
    int64_t pos = 0;
    for (int r = pres + 1; r <= x.res; r++) {
        int below = x.res - r;
        for (int dg = 0; dg < x.d[r]; dg++) {
            if (pent && dg == 1) continue;
            pos += (pent && dg == 0) ? pent_children(below) : hex_children(below);
        }
        if (x.d[r] != 0) pent = false;
    }
    return pos;
}

// construct a cell from parts (digits beyond res forced to 7)
inline uint64_t make_cell(int res, int bc, const int *digits /* [1..res] */) {
    Idx x;
    x.res = res;
    x.bc = bc;
    for (int r = 1; r <= 15; r++) x.d[r] = r <= res ? digits[r] : 7;
    return pack(x);
}

// directed edge: mode 2, reserved field = direction 1..6 (not 1 on a pentagon), over a valid origin cell
inline bool valid_edge(uint64_t e) {
    Idx x = unpack(e);
    if (x.high != 0) return false;
    if (x.mode != 2) return false;
    int dir = x.reserved;
    if (dir < 1 || dir > 6) return false;
    Idx o = x;
    o.mode = 1;
    o.reserved = 0;
    if (!valid_cell_x(o)) return false;
    if (is_pentagon(pack(o)) && dir == 1) return false;
    return true;
}

// canonical compaction of a set of distinct valid cells of one resolution
inline std::vector<uint64_t> compact(std::vector<uint64_t> cells) {
    std::vector<uint64_t> out;
    if (cells.empty()) return out;
    int r = res_of(cells[0]);
    std::sort(cells.begin(), cells.end());
    cells.erase(std::unique(cells.begin(), cells.end()), cells.end());
    std::vector<uint64_t> cur = cells;
    for (int lvl = r; lvl >= 1 && !cur.empty(); lvl--) {
        std::map<uint64_t, int> cnt;
        for (uint64_t c : cur) cnt[parent(c, lvl - 1)]++;
        std::vector<uint64_t> next;
        for (uint64_t c : cur) {
            uint64_t p = parent(c, lvl - 1);
            int need = is_pentagon(p) ? 6 : 7;
            if (cnt[p] == need) {
                if (center_child(p, lvl) == c) next.push_back(p);  // once per complete family
            } else
                out.push_back(c);
        }
        cur = next;
    }
    for (uint64_t c : cur) out.push_back(c);
    std::sort(out.begin(), out.end());
    return out;
}

// self test of the model on closed-form identities; returns empty string if fine
inline const char *selftest() {
    // children counts sum to the next resolution's count
    for (int r = 0; r < 15; r++) {
        int64_t n = 110 * hex_children(1) + 12 * pent_children(1);
        if (r == 0 && n != num_cells(1)) return "res0 children != num_cells(1)";
        // N(r+1) = 7*(N(r)-12) + 6*12
        if (7 * (num_cells(r) - 12) + 72 != num_cells(r + 1)) return "recurrence";
    }
    // pos∘at = id and strictly increasing on small trees, hexagon and pentagon
    int dg[16] = {0};
    uint64_t roots[3] = {make_cell(0, 4, dg), make_cell(0, 5, dg), 0};
    dg[1] = 0; dg[2] = 3;
    roots[2] = make_cell(2, 14, dg);
    for (uint64_t root : roots)
        for (int n = 0; n <= 4; n++) {
            int cres = res_of(root) + n;
            int64_t cnt = children_count(root, cres);
            uint64_t prev = 0;
            for (int64_t i = 0; i < cnt; i++) {
                uint64_t c = child_at(root, cres, i);
                if (!valid_cell(c)) return "child_at produced invalid";
                if (i && c <= prev) return "child_at not increasing";
                if (child_pos(c, res_of(root)) != i) return "child_pos(child_at) != id";
                if (parent(c, res_of(root)) != root) return "parent(child) != root";
                prev = c;
            }
        }
    return nullptr;
}

}  // namespace ref
