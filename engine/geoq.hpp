// geoq.hpp — binary128 spherical geometry used by the geometric oracles (DESIGN.md §3.2)
#pragma once
#include <quadmath.h>
#include <vector>
#include <cmath>

namespace gq {
typedef __float128 Q;
static const Q PIq = 3.14159265358979323846264338327950288419716939937510Q;

struct V {
    Q x, y, z;
};
inline V fromLL(double lat, double lng) {
    Q la = lat, lo = lng;
    Q c = cosq(la);
    return {c * cosq(lo), c * sinq(lo), sinq(la)};
}
inline Q dot(V a, V b) { return a.x * b.x + a.y * b.y + a.z * b.z; }
inline V cross(V a, V b) { return {a.y * b.z - a.z * b.y, a.z * b.x - a.x * b.z, a.x * b.y - a.y * b.x}; }
inline V add(V a, V b) { return {a.x + b.x, a.y + b.y, a.z + b.z}; }
inline V sub(V a, V b) { return {a.x - b.x, a.y - b.y, a.z - b.z}; }
inline V scl(V a, Q k) { return {a.x * k, a.y * k, a.z * k}; }
inline Q len(V a) { return sqrtq(dot(a, a)); }
inline V nrm(V a) {
    Q n = len(a);
    return {a.x / n, a.y / n, a.z / n};
}
inline Q angle(V a, V b) { return atan2q(len(cross(a, b)), dot(a, b)); }
inline void toLL(V v, double &lat, double &lng) {
    v = nrm(v);
    lat = (double)asinq(v.z);
    lng = (double)atan2q(v.y, v.x);
}

// angular distance from p to the (minor) great-circle arc a-b
inline Q distToArc(V p, V a, V b) {
    V n = cross(a, b);
    Q nn = len(n);
    if (nn < 1e-40Q) return angle(p, a);
    n = scl(n, 1 / nn);
    Q d = dot(p, n);
    V q = sub(p, scl(n, d));
    Q ql = len(q);
    if (ql > 1e-40Q) {
        q = scl(q, 1 / ql);
        if (dot(cross(a, q), n) >= 0 && dot(cross(q, b), n) >= 0) return fabsq(asinq(d));
    }
    Q da = angle(p, a), db = angle(p, b);
    return da < db ? da : db;
}
inline Q distToBoundary(const std::vector<V> &poly, V p) {
    Q best = 10;
    size_t n = poly.size();
    for (size_t i = 0; i < n; i++) {
        Q d = distToArc(p, poly[i], poly[(i + 1) % n]);
        if (d < best) best = d;
    }
    return best;
}

// gnomonic chart at c (great circles -> straight lines). Valid for points within 90 degrees of c.
struct Chart {
    V c, e1, e2;
    explicit Chart(V c_) : c(c_) {
        V up = {0, 0, 1};
        if (fabsq(c.z) > 0.9Q) up = {1, 0, 0};
        e1 = nrm(cross(up, c));
        e2 = cross(c, e1);
    }
    void proj(V p, Q &x, Q &y) const {
        Q w = dot(p, c);
        x = dot(p, e1) / w;
        y = dot(p, e2) / w;
    }
};
// crossing-number test of p in the spherical polygon (great-circle edges), evaluated in the gnomonic chart at c
inline bool insideGnomonic(V c, const std::vector<V> &poly, V p) {
    Chart ch(c);
    Q px, py;
    ch.proj(p, px, py);
    bool in = false;
    size_t n = poly.size();
    std::vector<Q> xs(n), ys(n);
    for (size_t i = 0; i < n; i++) ch.proj(poly[i], xs[i], ys[i]);
    for (size_t i = 0; i < n; i++) {
        size_t j = (i + 1) % n;
        if ((ys[i] > py) != (ys[j] > py)) {
            Q x = xs[i] + (py - ys[i]) * (xs[j] - xs[i]) / (ys[j] - ys[i]);
            if (x > px) in = !in;
        }
    }
    return in;
}

// signed area of the spherical triangle (a,b,c): positive if counter-clockwise seen from outside
inline Q triArea(V a, V b, V c) {
    Q num = dot(a, cross(b, c));
    Q den = 1 + dot(a, b) + dot(b, c) + dot(c, a);
    return 2 * atan2q(num, den);
}
// signed area of a spherical polygon with great-circle edges (fan from apex o; o should be inside or near)
inline Q polyArea(const std::vector<V> &poly, V o) {
    Q s = 0;
    size_t n = poly.size();
    for (size_t i = 0; i < n; i++) s += triArea(o, poly[i], poly[(i + 1) % n]);
    return s;
}
inline Q polyArea(const std::vector<V> &poly) {
    V o = {0, 0, 0};
    for (auto &v : poly) o = add(o, v);
    return polyArea(poly, nrm(o));
}

// clip a (convex or mildly non-convex) spherical polygon against the half space n.x >= 0 (Sutherland–Hodgman)
inline std::vector<V> clipHalf(const std::vector<V> &poly, V n) {
    std::vector<V> out;
    size_t m = poly.size();
    for (size_t i = 0; i < m; i++) {
        V a = poly[i], b = poly[(i + 1) % m];
        Q da = dot(a, n), db = dot(b, n);
        if (da >= 0) out.push_back(a);
        if ((da >= 0) != (db >= 0)) {
            // intersection of arc a-b with the plane: point on the great circle through a,b with n.x = 0
            V x = add(scl(a, db), scl(b, -da));  // da*b - db*a direction, sign fixed below
            x = nrm(x);
            if (dot(x, add(a, b)) < 0) x = scl(x, -1);
            out.push_back(x);
        }
    }
    return out;
}

}  // namespace gq
