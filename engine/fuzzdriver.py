"""Driver for libFuzzer-based checks (C12): build -> known findings -> regression/seed replay -> campaign -> triage -> evidence.

A campaign is N independent libFuzzer processes that share one output corpus directory (libFuzzer reloads units found by
the others). Only crash-*/leak-* artifacts count; timeout-/oom-/slow-unit- files are load noise and are reported as such.
Every artifact is re-run three times before it is reported; the artifact itself (copied to replay/<id>/) is the replay file.
"""
import os, glob, json, shutil, subprocess, time, hashlib, re

VERIF = os.path.dirname(os.path.dirname(os.path.abspath(__file__)))


def _build(run, cm):
    os.makedirs(run.bdir, exist_ok=True)
    cm.gen_header(os.path.join(run.bdir, 'inc'))
    libobjs = cm.build_lib(run.bdir, 'fuzz')
    exe = cm.build_harness(run.bdir, run.prop, 'fuzz', libobjs)
    run.notes.append(f"build {time.time()-run.t0:.1f}s")
    return exe


def _build_runners(run, cm):
    """standalone runner (fuzz/C12_run.cpp) in two unrelated builds: gcc -O2 and clang -O0, no sanitizers"""
    exes = {}
    for v in ('fast', 'plain0'):
        libobjs = cm.build_lib(run.bdir, v)
        exes[v] = cm.build_harness(run.bdir, run.prop, v, libobjs, src=run.spec['runner_src'], tag='run')
    return exes


def _run_cpu_bounded(cmd, env, cpu_s, cwd=None):
    """run cmd until it exits or has used cpu_s seconds of CPU time (from /proc; wall clock only as a 20x backstop).
    Returns (finished, returncode, stdout, stderr)."""
    import tempfile
    with tempfile.TemporaryFile('w+') as so, tempfile.TemporaryFile('w+') as se:
        p = subprocess.Popen(cmd, stdout=so, stderr=se, env=env, cwd=cwd)
        tick = os.sysconf('SC_CLK_TCK'); t0 = time.time(); fin = True
        while True:
            try:
                p.wait(timeout=0.5); break
            except subprocess.TimeoutExpired:
                pass
            used = 0.0
            try:
                f = open(f'/proc/{p.pid}/stat').read().rsplit(')', 1)[1].split()
                used = (int(f[11]) + int(f[12]) + int(f[13]) + int(f[14])) / tick
            except Exception:
                pass
            if used >= cpu_s or time.time() - t0 > cpu_s * 20:
                p.kill(); p.wait(); fin = False; break
        so.seek(0); se.seek(0)
        return fin, p.returncode, so.read(), se.read()[-4000:]


def _cross_checks(run, runners, files, jobs):
    """deterministic checks over stored programs: (a) valgrind memcheck on the gcc build (uninitialised-value use and invalid accesses that
    ASan/UBSan do not see), (b) equal observation digests in the gcc -O2 and the clang -O0 build. Returns [(file, message)].
    Every sub-process is bounded in CPU time: a program that normally runs for microseconds and does not finish is reported, not waited for."""
    from concurrent.futures import ThreadPoolExecutor
    bad = []
    files = sorted(files)
    env = dict(run.env); env.pop('VERIF_FRAG', None); env['VERIF_KNOWN'] = ''
    nsh = max(1, min(jobs, len(files) // 20 + 1))
    shards = [files[i::nsh] for i in range(nsh)]

    def digests(exe, fl, cpu):
        fin, rc, out, err = _run_cpu_bounded([exe] + fl, env, cpu)
        d = {}
        for ln in out.splitlines():
            a = ln.split()
            if len(a) == 2: d[a[0]] = a[1]
        return fin, rc, d, err

    def vg(fl, cpu):
        fin, rc, out, err = _run_cpu_bounded(['valgrind', '-q', '--error-exitcode=9', '--track-origins=no', runners['fast']] + fl, env, cpu)
        return fin, rc, err

    def one(fl):
        res = []
        if not fl: return res
        fin1, rc1, d1, e1 = digests(runners['fast'], fl, 20)
        fin2, rc2, d2, e2 = digests(runners['plain0'], fl, 40)
        for f in fl:
            b = os.path.basename(f)
            if b not in d1 or b not in d2:
                if not (fin1 and fin2):
                    finx, _, _, _ = digests(runners['fast'], [f], 15)
                    res.append((f, 'an API call does not return: the program (normally microseconds) was stopped after 15 s of CPU time in a plain build'
                                if not finx else 'a group of stored programs did not finish within its CPU budget, this one does alone (load?): inconclusive'))
                else:
                    res.append((f, f"runner died on this program (exit {rc1}/{rc2}): {(e1 or e2).strip()[-200:]}"))
                return res
            if d1[b] != d2[b]:
                res.append((f, f"observation digest differs between two builds of the same sources (gcc -O2: {d1[b]}, clang -O0: {d2[b]}): results depend on undefined or uninitialised state"))
        fin, rc, err = vg(fl, 200)
        if fin and rc != 0:
            for f in fl:   # name the first program that fails alone
                finf, rcf, errf = vg([f], 120)
                if finf and rcf != 0:
                    first = [l for l in errf.splitlines() if l.startswith('==')]
                    res.append((f, 'valgrind memcheck: ' + ' | '.join(l.split('== ', 1)[-1] for l in first[:4])[:400])); break
            else:
                res.append((fl[0], 'valgrind memcheck reports an error for a group of programs but for none of them alone: ' + err.strip()[:300]))
        return res

    with ThreadPoolExecutor(nsh) as ex:
        for r in ex.map(one, shards): bad += r
    return [(f, m) for f, m in bad if 'inconclusive' not in m]


def _run_file(run, exe, path, known='', trace=False, timeout=120):
    env = dict(run.env)
    env['VERIF_KNOWN'] = known
    env.pop('VERIF_FRAG', None)
    if trace: env['VERIF_TRACE'] = '1'
    try:
        r = subprocess.run([exe, '-timeout=60', '-rss_limit_mb=4000', path], stdout=subprocess.PIPE, stderr=subprocess.STDOUT, text=True, env=env,
                           timeout=timeout, cwd=run.bdir, errors='replace')
        return r.returncode, r.stdout
    except subprocess.TimeoutExpired:
        return -9, 'timeout'


def _cpu_limited_run(run, exe, path, known, cpu_s):
    """re-run one input alone under a CPU-time limit (not wall clock: robust against load). Returns (finished, cpu seconds used)."""
    import resource
    env = dict(run.env); env['VERIF_KNOWN'] = known; env.pop('VERIF_FRAG', None)

    def lim():
        resource.setrlimit(resource.RLIMIT_CPU, (cpu_s, cpu_s + 5))
    t0 = time.time()
    try:
        r = subprocess.run([exe, '-timeout=100000', '-rss_limit_mb=4000', path], stdout=subprocess.DEVNULL, stderr=subprocess.DEVNULL, env=env,
                           cwd=run.bdir, preexec_fn=lim, timeout=cpu_s * 20)
        killed = r.returncode in (-24, -9, 128 + 24)   # SIGXCPU / SIGKILL
    except subprocess.TimeoutExpired:
        return None, time.time() - t0       # starved of CPU: inconclusive
    return (not killed), time.time() - t0


def _reason(out):
    for ln in out.splitlines():
        if 'C12-VIOLATION' in ln: return ln.strip()[:400]
    for ln in out.splitlines():
        if 'runtime error' in ln or 'ERROR: AddressSanitizer' in ln or 'Assertion' in ln or 'ERROR: LeakSanitizer' in ln:
            return ln.strip()[:400]
    return out.strip().splitlines()[-1][:300] if out.strip() else 'no output'


def _save_replay(run, path):
    d = os.path.join(VERIF, 'replay', run.prop)
    os.makedirs(d, exist_ok=True)
    data = open(path, 'rb').read()
    p = os.path.join(d, hashlib.sha256(data).hexdigest()[:16] + '.bin')
    with open(p, 'wb') as f: f.write(data)
    return p


def run(run, replay, cm):
    spec = run.spec
    tcfg = spec[run.tier]
    exe = _build(run, cm)
    runners = _build_runners(run, cm) if spec.get('runner_src') else None
    if replay:
        rc, out = _run_file(run, exe, os.path.abspath(replay), trace=True)
        print(f"[fuzz] rc={rc} {_reason(out) if rc else 'pass'}")
        for ln in out.splitlines():
            if ln.startswith('TRACE') or ln.startswith('program so far'): print(ln[:2000])
        if not rc and runners:
            for f, msg in _cross_checks(run, runners, [os.path.abspath(replay)], 1):
                print('[cross-build / valgrind]', msg); rc = 1
        if rc:
            print(f"VIOLATION property={run.prop} replay={os.path.abspath(replay)}")
        return 1 if rc else 0

    known = cm.load_known(run.prop)
    known_sigs = [k['signature'] for k in known if k.get('status') == 'known']
    kstr = ','.join(known_sigs)
    # 1. known findings: the stored input must still fail when nothing is excluded, and pass when its signature is excluded
    for k in known:
        if k.get('status') != 'known': continue
        p = os.path.join(VERIF, k['replay'])
        rc0, out0 = _run_file(run, exe, p, known='')
        rc1, out1 = _run_file(run, exe, p, known=k['signature'])
        if rc0 != 0 and rc1 == 0:
            run.known_lines.append(f"KNOWN-FINDING: property={run.prop} {k['what']} (signature {k['signature']}, replay {k['replay']})")
        elif rc0 == 0:
            run.notes.append(f"known finding {k['signature']} no longer reproduces from {k['replay']}")
        else:
            run.violations.append((p, 'known-finding replay fails even with its signature excluded: ' + _reason(out1)))
    # 2. regression inputs (fixed findings, hand-picked) — every file individually, so that the failing one is named
    regress = sorted(glob.glob(os.path.join(VERIF, 'corpus', run.prop, 'regress', '*')))
    kreplays = {os.path.join(VERIF, k['replay']) for k in known if k.get('status') == 'known'}
    ncorp = 0
    for p in regress:
        if p in kreplays: continue
        ncorp += 1
        rc, out = _run_file(run, exe, p, known=kstr)
        if rc:
            run.violations.append((p, 'regression input fails: ' + _reason(out)))
    # 2b. deterministic cross-checks over every stored program (seed corpus + regression inputs)
    seeds = os.path.join(VERIF, 'corpus', run.prop, 'seeds')
    ncross = 0
    if runners:
        stored = [p for p in regress if p not in kreplays] + sorted(glob.glob(os.path.join(seeds, '*')))
        ncross = len(stored)
        seenmsg = set()
        for f, msg in _cross_checks(run, runners, stored, run.jobs):
            key = re.sub(r'[0-9a-f]{8,}|\d+', '#', msg)[:120]
            if key in seenmsg: continue
            seenmsg.add(key)
            run.violations.append((_save_replay(run, f), msg))
    if run.violations and run.tier == 'quick':
        run.notes.append('the replay / cross-check phases already found violations: enumeration and campaign skipped in the quick tier')
        return run.verdict()
    # 3. campaign
    work = os.path.join(run.bdir, 'work'); os.makedirs(work)
    outcorp = os.path.join(work, 'corpus'); os.makedirs(outcorp)
    fragbase = os.path.join(work, 'frag')
    # 3a. structured enumeration through the same binary (no fuzzer): function x register construction x near-miss mode x payloads
    nenum = int(tcfg.get('enum_payloads', 0) * max(float(os.environ.get('VERIF_SCALE', '1')), 0.1))
    enum_art = os.path.join(work, 'art-enum'); os.makedirs(enum_art)
    eprocs = []
    if nenum > 0:
        for i in range(max(1, run.jobs)):
            env = dict(run.env); env['VERIF_FRAG'] = fragbase; env['VERIF_KNOWN'] = kstr
            env['VERIF_ENUM'] = f'{i}/{max(1, run.jobs)}'; env['VERIF_ENUM_ART'] = enum_art; env['VERIF_ENUM_PAYLOADS'] = str(nenum); env['VERIF_SEED'] = str(run.seed)
            lg = open(os.path.join(work, f'elog{i}.txt'), 'w')
            eprocs.append((i, subprocess.Popen([exe, '-runs=0'], stdout=lg, stderr=subprocess.STDOUT, env=env, cwd=work), lg))
        # CPU-time budget per enumeration worker (normally a few seconds): a worker that exceeds it is executing a call that does not
        # return; SIGTERM makes it save the program it is running, which is then judged like a libFuzzer timeout artifact
        tick = os.sysconf('SC_CLK_TCK'); budget = tcfg.get('enum_cpu_s', 150); t0 = time.time()
        live = {i: p for i, p, lg in eprocs}
        while live:
            time.sleep(0.5)
            for i, p in list(live.items()):
                if p.poll() is not None:
                    del live[i]; continue
                used = 0.0
                try:
                    f = open(f'/proc/{p.pid}/stat').read().rsplit(')', 1)[1].split()
                    used = (int(f[11]) + int(f[12])) / tick
                except Exception:
                    pass
                if used >= budget or time.time() - t0 > budget * 20:
                    before = set(glob.glob(os.path.join(enum_art, '*')))
                    p.terminate()
                    try: p.wait(timeout=20)
                    except subprocess.TimeoutExpired: p.kill(); p.wait()
                    for fnew in set(glob.glob(os.path.join(enum_art, '*'))) - before:
                        os.rename(fnew, os.path.join(enum_art, 'timeout-' + os.path.basename(fnew)))
                    del live[i]
        for i, p, lg in eprocs:
            lg.close()
            if p.returncode not in (0, -15) and not glob.glob(os.path.join(enum_art, '*')):
                tail = open(os.path.join(work, f'elog{i}.txt'), errors='replace').read()[-400:]
                run.notes.append(f"enumeration worker {i} exited {p.returncode} without a saved program: {tail.strip()[-200:]}"); run.infra_fail = True
    scale = float(os.environ.get('VERIF_SCALE', '1'))
    nw = max(1, run.jobs)
    runs = max(1000, int(tcfg['runs'] * scale / nw))
    budget = int(tcfg['max_total_time'] * max(scale, 0.2))
    procs = []
    for i in range(nw):
        art = os.path.join(work, f'art{i}'); os.makedirs(art)
        env = dict(run.env); env['VERIF_FRAG'] = fragbase; env['VERIF_KNOWN'] = kstr
        cmd = [exe, outcorp] + ([seeds] if os.path.isdir(seeds) else []) + [
            f'-seed={cm.splitmix(run.seed, i) % 2147483647 + 1}', f'-runs={runs}', f'-max_total_time={budget}', '-max_len=400', '-len_control=0',
            f'-artifact_prefix={art}/', '-timeout=25', '-rss_limit_mb=4000', '-print_final_stats=1', '-reload=30', '-use_value_profile=0']
        lg = open(os.path.join(work, f'log{i}.txt'), 'w')
        procs.append((i, subprocess.Popen(cmd, stdout=lg, stderr=subprocess.STDOUT, env=env, cwd=work), lg, art))
    for i, p, lg, art in procs:
        p.wait(); lg.close()
    # 4. triage artifacts (campaign workers and the enumeration phase)
    noise = 0
    seen_reasons = {}

    class _Done:
        returncode = 0
    for i, p, lg, art in procs + [('enum', _Done(), None, enum_art)]:
        for f in sorted(glob.glob(os.path.join(art, '*'))):
            b = os.path.basename(f)
            if b.startswith('timeout-'):
                # "returns normally" is part of the property, but slowness is not a violation: the unit is re-run alone under a CPU-time
                # limit far above anything the work caps of the VM allow (every capped call finishes in milliseconds)
                if any('does not return' in m for _, m in run.violations):
                    noise += 1; continue    # one confirmed no-return input is enough; the others are not re-run (each costs minutes)
                fin, used = _cpu_limited_run(run, exe, f, kstr, tcfg.get('no_return_cpu_s', 120))
                if fin is False:
                    rp = _save_replay(run, f)
                    run.violations.append((rp, f"an API call does not return: the program was stopped after {tcfg.get('no_return_cpu_s', 120)} s of CPU time (work caps bound every call to ~1e4 cells)"))
                else:
                    noise += 1
                continue
            if not (b.startswith('crash-') or b.startswith('leak-')):
                noise += 1; continue
            fails = 0; why = ''
            for _ in range(3):
                rc, out = _run_file(run, exe, f, known=kstr)
                if rc: fails += 1; why = _reason(out)
            if fails == 0:
                lg_txt = open(os.path.join(work, f'log{i}.txt'), errors='replace').read() if i != 'enum' else ''
                why0 = _reason(lg_txt)
                run.notes.append(f"artifact {b} of worker {i} did not reproduce on replay ({why0[:200]}); run marked inconclusive for it, not a violation")
                if os.path.getsize(f) == 0:
                    run.infra_fail = True   # an empty artifact = the process died outside a unit (start-up / exit): harness problem, never silent
                continue
            key = re.sub(r'0x[0-9a-f]+|[0-9a-f]{16}|\d+', '#', why)[:160]
            if key in seen_reasons: continue   # same report text modulo numbers: one replay file per root-cause-looking message
            # bounded minimisation (keeps the original if it fails)
            mini = f + '.min'
            try:
                env = dict(run.env); env['VERIF_KNOWN'] = kstr
                subprocess.run([exe, '-minimize_crash=1', '-max_total_time=20', f'-exact_artifact_path={mini}', '-timeout=60', f],
                               stdout=subprocess.DEVNULL, stderr=subprocess.DEVNULL, env=env, cwd=work, timeout=90)
            except Exception:
                pass
            use = f
            if os.path.exists(mini):
                rc, out = _run_file(run, exe, mini, known=kstr)
                if rc and re.sub(r'0x[0-9a-f]+|[0-9a-f]{16}|\d+', '#', _reason(out))[:160] == key: use = mini
            rp = _save_replay(run, use)
            seen_reasons[key] = rp
            run.violations.append((rp, why + (f" [{fails}/3 replays fail]" if fails < 3 else '')))
        if i != 'enum' and p.returncode not in (0,) and not glob.glob(os.path.join(art, '*')):
            tail = open(os.path.join(work, f'log{i}.txt'), errors='replace').read()[-600:]
            run.notes.append(f"fuzz worker {i} exited {p.returncode} without an artifact: {tail.strip().splitlines()[-1][:200] if tail.strip() else ''}")
            run.infra_fail = True
    if noise:
        run.notes.append(f"{noise} timeout/oom/slow-unit artifacts ignored (load noise, not violations)")
    # 5. evidence
    frs = []
    for f in glob.glob(fragbase + '.*.json'):
        try: frs.append(json.load(open(f)))
        except Exception as e: run.notes.append(f'bad fragment {f}: {e}')
    beh, tr = set(), set()
    fnrc = {}
    tot = dict(execs=0, calls=0, skipped_size=0, nontrivial_programs=0, table_hits=0, closure_cells=0)
    samples = []; excl = {}
    for fr in frs:
        for k in tot: tot[k] += fr.get(k, 0)
        beh.update(fr.get('behaviours', [])); tr.update(fr.get('traces', []))
        for fn, v in fr.get('fn_rc', {}).items():
            a = fnrc.setdefault(fn, [0] * 17)
            for j, x in enumerate(v): a[j] += x
        for s in fr.get('samples', []):
            if len(samples) < 40 and s not in samples: samples.append(s)
        for k, n in fr.get('excluded_known', {}).items(): excl[k] = excl.get(k, 0) + n
    if tot['execs'] == 0:
        run.notes.append('no statistics fragment was written by any fuzz worker: nothing was measured, the run does not count')
        run.infra_fail = True
    cov = ft = 0
    for i, p, lg, art in procs:
        txt = open(os.path.join(work, f'log{i}.txt'), errors='replace').read()
        m = re.findall(r'cov: (\d+) ft: (\d+)', txt)
        if m: cov = max(cov, int(m[-1][0])); ft = max(ft, int(m[-1][1]))
    codes = ['E_SUCCESS', 'E_FAILED', 'E_DOMAIN', 'E_LATLNG_DOMAIN', 'E_RES_DOMAIN', 'E_CELL_INVALID', 'E_DIR_EDGE_INVALID', 'E_UNDIR_EDGE_INVALID',
             'E_VERTEX_INVALID', 'E_PENTAGON', 'E_DUPLICATE_INPUT', 'E_NOT_NEIGHBORS', 'E_RES_MISMATCH', 'E_MEMORY_ALLOC', 'E_MEMORY_BOUNDS', 'E_OPTION_INVALID']
    table = {fn: {codes[j]: n for j, n in enumerate(v[:16]) if n} for fn, v in sorted(fnrc.items())}
    doc = {
        'property_id': run.prop, 'tier': run.tier, 'seed': run.seed, 'level': spec.get('level', 'exploration'),
        'coverage': {
            'evaluations': tot['execs'], 'distinct_nontrivial': len(tr), 'rule': spec['rule'],
            'samples': [{'class': 'program', 'case': s} for s in samples] or [{'class': 'none', 'case': 'no program recorded'}],
            'api_calls_executed': tot['calls'], 'calls_skipped_by_size_cap': tot['skipped_size'], 'nontrivial_programs': tot['nontrivial_programs'],
            'distinct_behaviours_fn_rc_argclass': len(beh), 'functions_reached': len(fnrc),
            'calls_with_out_of_domain_scalar_judged_by_table': tot['table_hits'], 'cells_checked_by_closure_clause': tot['closure_cells'],
            'function_x_return_code': table, 'libfuzzer_edge_coverage': cov, 'libfuzzer_features': ft,
            'seed_corpus_files': len(glob.glob(os.path.join(seeds, '*'))), 'stored_programs_checked_under_valgrind_and_across_two_builds': ncross, 'regression_inputs_replayed': ncorp, 'enumerated_programs(function x register construction x near-miss mode x payloads)': 62 * 16 * 7 * nenum, 'workers': nw, 'runs_per_worker': runs,
            'excluded_known': excl, 'known_findings': run.known_lines, 'notes': run.notes, 'exhaustive': False,
        },
        'assumptions': spec.get('assumptions', []), 'wall_s': round(time.time() - run.t0, 2), 'violations': len(run.violations),
    }
    if not os.environ.get('VERIF_NO_EVIDENCE'):
        os.makedirs(os.path.join(VERIF, 'evidence'), exist_ok=True)
        p = os.path.join(VERIF, 'evidence', run.prop + '.json')
        with open(p + '.tmp', 'w') as f: json.dump(doc, f, indent=1)
        os.replace(p + '.tmp', p)
    if os.environ.get('VERIF_KEEP_CORPUS'):
        dst = os.environ['VERIF_KEEP_CORPUS']; os.makedirs(dst, exist_ok=True)
        for f in glob.glob(os.path.join(outcorp, '*')): shutil.copy(f, dst)
    return run.verdict()
