// polyq.hpp — polygons in latitude/longitude space: generator (well-formed by construction), exact-enough planar
// predicates in binary128 with an undecided margin, (de)serialisation. Used by C07, C15, C17 (DESIGN.md §4 C07/C15).
#pragma once
#include <string>
#include <vector>
#include "gen.hpp"
#include "geoq.hpp"

namespace pq {
using gq::Q;

struct GPoly {                             // the polygon as handed to the library (doubles)
    std::vector<LatLng> outer;
    std::vector<std::vector<LatLng>> holes;
    double clat = 0, clng = 0;             // construction centre (for the unwrapped frame and candidate enumeration)
    int shape = 0, loc = 0;                // generator arms (classification)
};
static const char *SHAPE_NAME[] = {"convex-ish", "concave-star", "needle", "tiny(<1 cell)", "large", "triangle/quad", "wide-band(>180deg)", "comb(thin slits)"};
static const char *LOC_NAME[] = {"uniform", "pentagon", "antimeridian", "high-latitude", "icosahedron-edge", "southern", "coarse-ancestor-corner", "ancestor-bbox-extreme-descendant", "polar-cap(any distance from a pole)", "on-a-cell-edge(any offset)"};
enum { NSHAPE = 8, NLOC = 10 };

inline std::string serLoop(const std::vector<LatLng> &l) {
    std::string s;
    for (size_t i = 0; i < l.size(); i++) s += vh::fmt(i ? ";%a:%a" : "%a:%a", l[i].lat, l[i].lng);
    return s;
}
inline std::string ser(const GPoly &p) {
    std::string s = vh::fmt("clat=%a clng=%a shape=%d loc=%d nh=%zu outer=%s", p.clat, p.clng, p.shape, p.loc, p.holes.size(), serLoop(p.outer).c_str());
    for (auto &h : p.holes) s += " hole=" + serLoop(h);
    return s;
}
inline bool parseLoop(const std::string &s, std::vector<LatLng> &l) {
    l.clear();
    size_t p = 0;
    while (p < s.size()) {
        size_t q = s.find(';', p);
        if (q == std::string::npos) q = s.size();
        std::string t = s.substr(p, q - p);
        size_t c = t.find(':');
        if (c == std::string::npos) return false;
        LatLng g = {strtod(t.substr(0, c).c_str(), nullptr), strtod(t.substr(c + 1).c_str(), nullptr)};
        l.push_back(g);
        p = q + 1;
    }
    return true;
}
inline bool deser(const std::string &s, GPoly &p) {
    auto field = [&](const char *key, size_t from = 0) -> std::string {
        size_t a = s.find(std::string(key) + "=", from);
        if (a == std::string::npos) return "";
        a += strlen(key) + 1;
        size_t b = s.find(' ', a);
        return s.substr(a, b == std::string::npos ? std::string::npos : b - a);
    };
    p.clat = strtod(field("clat").c_str(), nullptr);
    p.clng = strtod(field("clng").c_str(), nullptr);
    p.shape = atoi(field("shape").c_str());
    p.loc = atoi(field("loc").c_str());
    if (!parseLoop(field("outer"), p.outer)) return false;
    p.holes.clear();
    size_t from = 0;
    while (true) {
        size_t a = s.find(" hole=", from);
        if (a == std::string::npos) break;
        size_t b = s.find(' ', a + 6);
        std::vector<LatLng> h;
        if (!parseLoop(s.substr(a + 6, b == std::string::npos ? std::string::npos : b - a - 6), h)) return false;
        p.holes.push_back(h);
        from = a + 6;
    }
    return true;  // an empty or degenerate outer loop is a legitimate (error-path) case of C17; C07/C15 discard it
}

// library view
struct LibPoly {
    GeoPolygon gp;
    std::vector<GeoLoop> holes;
    explicit LibPoly(GPoly &p) {
        gp.geoloop.numVerts = (int)p.outer.size();
        gp.geoloop.verts = p.outer.data();
        for (auto &h : p.holes) holes.push_back({(int)h.size(), h.data()});
        gp.numHoles = (int)holes.size();
        gp.holes = holes.empty() ? nullptr : holes.data();
    }
};

// ---------------------------------------------------------------- planar predicates (binary128)
struct P2 { Q x, y; };  // x = unwrapped longitude, y = latitude
inline Q wrapPi(Q a) {
    while (a > gq::PIq) a -= 2 * gq::PIq;
    while (a <= -gq::PIq) a += 2 * gq::PIq;
    return a;
}
// Frame: longitudes made continuous along the outer loop (every edge spans < 180 degrees, so the short way is meant:
// this is how the library reads an edge with |dlng| > pi as crossing the antimeridian). Points and holes are brought
// into the outer loop's longitude range by adding multiples of 2*pi.
struct Frame {
    Q minx = 0, maxx = 0;
    std::vector<P2> outer;
    explicit Frame(const std::vector<LatLng> &o) {
        Q x = (Q)o[0].lng;
        minx = maxx = x;
        for (size_t i = 0; i < o.size(); i++) {
            if (i) x += wrapPi((Q)o[i].lng - (Q)o[i - 1].lng);
            outer.push_back({x, (Q)o[i].lat});
            if (x < minx) minx = x;
            if (x > maxx) maxx = x;
        }
    }
    // representative of lng inside [minx, maxx] if there is one, else the one nearest to the range
    Q rep(Q lng) const {
        Q mid = (minx + maxx) / 2;
        return mid + wrapPi(lng - mid);
    }
    bool inRange(Q x, Q slack) const { return x >= minx - slack && x <= maxx + slack; }
    P2 pt(double lat, double lng) const { return {rep((Q)lng), (Q)lat}; }
    std::vector<P2> loop(const std::vector<LatLng> &l) const {  // a hole: first vertex by representative, then continuous
        std::vector<P2> v;
        Q x = rep((Q)l[0].lng);
        for (size_t i = 0; i < l.size(); i++) {
            if (i) x += wrapPi((Q)l[i].lng - (Q)l[i - 1].lng);
            v.push_back({x, (Q)l[i].lat});
        }
        return v;
    }
};
inline Q segDist(P2 p, P2 a, P2 b) {
    Q dx = b.x - a.x, dy = b.y - a.y, l2 = dx * dx + dy * dy;
    Q t = l2 > 0 ? ((p.x - a.x) * dx + (p.y - a.y) * dy) / l2 : 0;
    if (t < 0) t = 0;
    if (t > 1) t = 1;
    Q ex = a.x + t * dx - p.x, ey = a.y + t * dy - p.y;
    return sqrtq(ex * ex + ey * ey);
}
inline Q loopDist(const std::vector<P2> &l, P2 p) {
    Q best = 100;
    for (size_t i = 0; i < l.size(); i++) {
        Q d = segDist(p, l[i], l[(i + 1) % l.size()]);
        if (d < best) best = d;
    }
    return best;
}
inline bool loopContains(const std::vector<P2> &l, P2 p) {  // crossing number
    bool in = false;
    size_t n = l.size();
    for (size_t i = 0; i < n; i++) {
        P2 a = l[i], b = l[(i + 1) % n];
        if ((a.y > p.y) != (b.y > p.y)) {
            Q x = a.x + (p.y - a.y) * (b.x - a.x) / (b.y - a.y);
            if (x > p.x) in = !in;
        }
    }
    return in;
}
struct QPoly {
    std::vector<P2> outer;
    std::vector<std::vector<P2>> holes;
};
inline QPoly toQ(const GPoly &g, const Frame &f) {
    QPoly q;
    q.outer = f.outer;
    for (auto &h : g.holes) q.holes.push_back(f.loop(h));
    return q;
}
// +1 decided inside the polygon (inside outer, outside every hole), -1 decided outside, 0 within `margin` of some edge
inline int inPoly(const QPoly &q, P2 p, Q margin) {
    if (loopDist(q.outer, p) <= margin) return 0;
    for (auto &h : q.holes) if (loopDist(h, p) <= margin) return 0;
    if (!loopContains(q.outer, p)) return -1;
    for (auto &h : q.holes) if (loopContains(h, p)) return -1;
    return 1;
}

// ---------------------------------------------------------------- generator
// star-shaped outer loop in the local tangent plane, mapped by a linear map (rotation, squash) and the 1/cos(lat) longitude
// scaling: simplicity carries over. 0..3 star-shaped holes in disjoint discs inside the inscribed disc.
inline GPoly drawPoly(int res, int maxCells, bool allowHoles, int forceShape = -1, int forceLoc = -1, bool allowPolarCap = false) {
    using namespace vh;
    GPoly g;
    g.loc = forceLoc >= 0 ? forceLoc : rpick({4, 3, 3, 2, 2, 2, 3, (res >= 1 ? 3 : 0), (allowPolarCap ? 2 : 0), (allowPolarCap ? 2 : 0)});
    int forcedShape = -1;
    LatLng c;
    switch (g.loc) {
        case 1: { cellToLatLng(gen::pentagonAt(res, ri(0, 11)), &c); LatLng o = gen::offset(c, runit() * 2 * gen::cellWidth(res), runit() * 2 * gen::PI); c = o; break; }
        case 2: { c = gen::pointAntimeridian(res); c.lat *= 0.9; break; }
        case 3: { c.lat = (ri(0, 1) ? 1 : -1) * (1.2 + runit() * 0.28); c.lng = (2 * runit() - 1) * gen::PI; break; }
        case 4: c = gen::pointFaceEdge(res); break;
        case 5: { c = gen::pointUniform(); c.lat = -fabs(c.lat); break; }
        case 6: {  // next to a corner of a coarse ancestor (children stick out of their ancestors there: pruning by ancestor must not lose them)
            int d = ri(1, std::max(1, std::min(res, 5)));
            H3Index anc = gen::cellRes(std::max(0, res - d), {3, 2, 2, 2, 0, 0, 1, 0, 1}).h;
            CellBoundary cb;
            if (cellToBoundary(anc, &cb)) { c = gen::pointUniform(); break; }
            LatLng v = cb.verts[ri(0, cb.numVerts - 1)];
            c = gen::offset(v, runit() * 2.5 * gen::cellWidth(res), runit() * 2 * gen::PI);
            if (vh::rpick({1, 1})) { H3Index hc = gen::cellAt(c, res); cellToLatLng(hc, &c); }  // centred on a cell there
            break;
        }
        case 7: {  // the northern/southern/eastern/western-most descendant of a coarse ancestor: where pruning by the ancestor's bounding box must not lose cells
            int d = std::min(res, rpick({1, 2, 3, 3}) + 1);
            H3Index anc = gen::cellRes(res - d, {3, 2, 2, 2, 0, 0, 1, 0, 1}).h;
            int64_t n = ref::children_count(anc, res);
            int dir = ri(0, 3);
            double best = -1e9;
            LatLng ac, bc = {0, 0};
            cellToLatLng(anc, &ac);
            for (int64_t i = 0; i < n; i++) {
                LatLng p;
                if (cellToLatLng(ref::child_at(anc, res, i), &p)) continue;
                double dl = p.lng - ac.lng;
                if (dl > gen::PI) dl -= 2 * gen::PI;
                if (dl < -gen::PI) dl += 2 * gen::PI;
                double key = dir == 0 ? p.lat : dir == 1 ? -p.lat : dir == 2 ? dl : -dl;
                if (key > best) { best = key; bc = p; }
            }
            c = bc;
            if (rpick({2, 1}) == 0) forcedShape = rpick({1, 1}) ? 3 : 5;  // tiny / triangle around that cell
            break;
        }
        case 9: {  // on an edge of a cell of the fill resolution (or a coarser one): between the great-circle edge and its lat/lng chord, or at any
                   // offset (1e-6 .. 0.3 cell widths) from it; usually with a tiny polygon — where spherical and planar containment differ
            int cr = std::max(0, res - rpick({3, 1, 1}));
            H3Index cell = gen::cellRes(cr, {3, 2, 2, 2, 1, 1, 2, 1, 1}).h;
            CellBoundary cb;
            LatLng cc;
            if (cellToBoundary(cell, &cb) || cellToLatLng(cell, &cc) || cb.numVerts < 3) { c = gen::pointUniform(); break; }
            int i = ri(0, cb.numVerts - 1), j = (i + 1) % cb.numVerts;
            double t = rpick({1, 1}) ? 0.5 : runit();
            LatLng a = cb.verts[i], b = cb.verts[j];
            double dl = b.lng - a.lng;
            if (dl > gen::PI) dl -= 2 * gen::PI;
            if (dl < -gen::PI) dl += 2 * gen::PI;
            LatLng chord = {a.lat + t * (b.lat - a.lat), a.lng + t * dl};                       // on the lat/lng chord
            LatLng arc = gen::toLL(gen::lerpN(gen::toV(a.lat, a.lng), gen::toV(b.lat, b.lng), t));  // on the great-circle edge
            double u = rpick({2, 1, 1}) == 0 ? runit() : (double)ri(0, 1);                        // between the two, or on one of them
            c.lat = chord.lat + u * (arc.lat - chord.lat);
            double dd = arc.lng - chord.lng;
            if (dd > gen::PI) dd -= 2 * gen::PI;
            if (dd < -gen::PI) dd += 2 * gen::PI;
            c.lng = chord.lng + u * dd;
            if (rpick({1, 1})) {  // pushed towards / away from the cell centre by any scale
                double off = gen::logU(1e-6, 0.3) * gen::cellWidth(cr) * (ri(0, 1) ? 1 : -1);
                double az = std::atan2((cc.lng - c.lng) * std::cos(c.lat), cc.lat - c.lat);
                c = gen::offset(c, off, az);
            }
            if (c.lng > gen::PI) c.lng -= 2 * gen::PI;
            if (c.lng < -gen::PI) c.lng += 2 * gen::PI;
            if (rpick({3, 1}) == 0) forcedShape = 3;
            break;
        }
        case 8: {  // next to a pole, at any distance from it (1e-3 .. 0.09 rad, log-uniform); the polygon never contains the pole
            // half of the time within 0.2 .. 8 cell widths of the pole at the fill resolution (the cells whose bounding box is clamped at the pole)
            double dist = rpick({1, 1}) ? gen::logU(1e-3, 0.09) : std::min(0.09, gen::logU(0.2, 8.0) * gen::cellWidth(res));
            c.lat = (ri(0, 1) ? 1 : -1) * (gen::PI / 2 - dist);
            c.lng = (2 * runit() - 1) * gen::PI;
            break;
        }
        default: c = gen::pointUniform(); break;
    }
    if (g.loc != 8 && fabs(c.lat) > 1.48) c.lat = c.lat > 0 ? 1.48 : -1.48;
    if (g.loc == 9 && forcedShape == 3) forceShape = -1;  // the edge arm chooses its own (tiny) shape
    g.clat = c.lat;
    g.clng = c.lng;
    g.shape = forceShape >= 0 ? forceShape : forcedShape >= 0 ? forcedShape : rpick({3, 3, 3, 2, 2, 1, (res <= 3 && g.loc != 8 ? 2 : 0), 2});
    if (g.shape == 6) {
        // band wider than 180 degrees of longitude built from edges of < 60 degrees: top chain eastwards, bottom chain back
        double span = (200 + 140 * runit()) * gen::PI / 180, a = (2 * runit() - 1) * gen::PI;
        double mid = (2 * runit() - 1) * 0.9, half = 0.08 + runit() * 0.35;
        int m = (int)(span / (50 * gen::PI / 180)) + 2;
        std::vector<LatLng> top, bot;
        for (int i = 0; i <= m; i++) {
            double lng = a + span * i / m;
            while (lng > gen::PI) lng -= 2 * gen::PI;
            top.push_back({std::min(1.4, mid + half * (0.4 + 0.6 * runit())), lng});
            bot.push_back({std::max(-1.4, mid - half * (0.4 + 0.6 * runit())), lng});
        }
        for (int i = 0; i <= m; i++) g.outer.push_back(bot[i]);          // counter-clockwise: bottom eastwards, top back westwards
        for (int i = m; i >= 0; i--) g.outer.push_back(top[i]);
        g.clat = mid;
        g.clng = a + span / 2;
        while (g.clng > gen::PI) g.clng -= 2 * gen::PI;
        return g;
    }
    double w = gen::cellWidth(res);
    double Rcells;
    switch (g.shape) {
        case 3: Rcells = rpick({1, 1}) ? 0.05 + runit() * 0.4 : gen::logU(3e-3, 0.45); break;  // tiny; half of the time at any scale down to 0.3 % of a cell
        case 4: Rcells = std::sqrt((double)maxCells) * (0.3 + 0.3 * runit()); break;
        case 2: Rcells = 1.5 + runit() * 9; break;
        case 7: Rcells = 2 + runit() * std::min(9.0, std::sqrt((double)maxCells) * 0.3); break;
        default: Rcells = 0.6 + runit() * std::min(8.0, std::sqrt((double)maxCells) * 0.3); break;
    }
    double R = Rcells * w;
    // keep the polygon well inside the lat/lng chart: no pole, total longitude span < pi
    double maxR = std::min((g.loc == 8 ? gen::PI / 2 - std::min(3e-4, 0.1 * (gen::PI / 2 - fabs(c.lat))) : 1.5) - fabs(c.lat), 1.2 * std::cos(c.lat)) * 0.8;
    if (R > maxR) R = maxR;
    int n = g.shape == 5 ? ri(3, 4) : g.shape == 2 ? ri(3, 8) : ri(3, 14);
    int nholes = (allowHoles && n >= 6 && g.shape != 2 && g.shape != 5) ? rpick({3, 2, 1, 1}) : 0;
    if (nholes && n < 6) n = 6;
    double lo = (g.shape == 1) ? 0.25 : 0.7;
    std::vector<double> ang(n), rad(n);
    double maxgap = 0, rmin = 1;
    for (int i = 0; i < n; i++) {
        ang[i] = (i + 0.1 + 0.8 * runit()) * 2 * gen::PI / n;
        rad[i] = lo + (1 - lo) * runit();
        rmin = std::min(rmin, rad[i]);
    }
    for (int i = 0; i < n; i++) {
        double gap = ang[(i + 1) % n] - ang[i];
        if (gap < 0) gap += 2 * gen::PI;
        maxgap = std::max(maxgap, gap);
    }
    // linear map: rotation psi, squash s, rotation phi
    double psi = runit() * 2 * gen::PI, phi = runit() * 2 * gen::PI;
    double s = g.shape == 2 ? (0.05 + 0.75 * runit()) / Rcells : 1.0;  // needle: 0.05..0.8 cell wide
    if (s > 1) s = 1;
    auto mapPt = [&](double x, double y) {
        double x1 = x * std::cos(psi) - y * std::sin(psi), y1 = (x * std::sin(psi) + y * std::cos(psi)) * s;
        double x2 = x1 * std::cos(phi) - y1 * std::sin(phi), y2 = x1 * std::sin(phi) + y1 * std::cos(phi);
        LatLng p = {c.lat + y2 * R, c.lng + x2 * R / std::cos(c.lat)};
        if (p.lng > gen::PI) p.lng -= 2 * gen::PI;
        if (p.lng < -gen::PI) p.lng += 2 * gen::PI;
        return p;
    };
    if (g.shape == 7) {
        // comb: a rectangle with 1..4 slits cut in from one side, each 0.05..0.9 cell wide — a concave outer loop whose exterior passes
        // BETWEEN the vertices of a cell (and between the corners of a coarse cell's bounding box)
        double hh = 0.45 + 0.5 * runit(), hw = 0.9;
        int m = ri(1, 4);
        double Rc = R / w;  // polygon half-size in cells
        std::vector<LatLng> o;
        o.push_back(mapPt(-hw, -hh));
        o.push_back(mapPt(hw, -hh));
        o.push_back(mapPt(hw, hh));
        for (int j = m - 1; j >= 0; j--) {
            double x = -hw + 2 * hw * (j + 0.3 + 0.4 * runit()) / m;
            double sw = std::min(0.9 * hw / m, (0.05 + 0.85 * runit()) / std::max(Rc, 1e-9)) / 2;  // half slit width
            double d = 2 * hh * (0.3 + 0.6 * runit());
            o.push_back(mapPt(x + sw, hh));
            o.push_back(mapPt(x + sw, hh - d));
            o.push_back(mapPt(x - sw, hh - d));
            o.push_back(mapPt(x - sw, hh));
        }
        o.push_back(mapPt(-hw, hh));
        g.outer = o;
        return g;
    }
    for (int i = 0; i < n; i++) g.outer.push_back(mapPt(rad[i] * std::cos(ang[i]), rad[i] * std::sin(ang[i])));
    if (nholes) {
        double rin = rmin * std::cos(std::min(maxgap / 2, 1.5));  // inscribed disc of the outer star
        // hole layouts (all holes pairwise disjoint and inside the inscribed disc):
        //   0 star-shaped holes in disjoint discs (bounding boxes mostly disjoint)
        //   1 parallel slanted strips: disjoint holes whose bounding boxes overlap almost completely
        //   2 an L-shaped hole and a small hole in the notch of the L: one bounding box contains the other hole
        //   3 a ring of 4-6 small holes
        //   4 one large comb-shaped hole: a rectangle with 1..3 slits cut into it, i.e. tongues of the polygon 0.3..1.5 cells wide that reach
        //     deep into the hole between the corners of any box around them (concave hole)
        int layout = rin > 0.15 ? rpick({4, 3, 2, 2, 2}) : 0;
        if (rin > 0.15 && layout == 0) {
            double hd = 0.5 * rin, hrMax = std::min(0.4 * rin, nholes > 1 ? hd * std::sin(gen::PI / nholes) * 0.8 : 0.4 * rin);
            for (int j = 0; j < nholes; j++) {
                double th = (j + 0.2 + 0.6 * runit()) * 2 * gen::PI / nholes;
                double hx = nholes == 1 && ri(0, 1) ? 0 : hd * std::cos(th), hy = nholes == 1 && hx == 0 ? 0 : hd * std::sin(th);
                int hsel = rpick({2, 2, 1});
                double hr = hsel == 0 ? hrMax * (0.5 + 0.5 * runit()) : hsel == 1 ? std::min(hrMax, (0.05 + 0.3 * runit()) / Rcells) : hrMax * runit();  // contains cells / smaller than a cell / any
                if (hr <= 0) continue;
                int hn = ri(3, 8);
                std::vector<LatLng> h;
                for (int i = 0; i < hn; i++) {
                    double a = (i + 0.1 + 0.8 * runit()) * 2 * gen::PI / hn, rr = hr * (0.5 + 0.5 * runit());
                    h.push_back(mapPt(hx + rr * std::cos(a), hy + rr * std::sin(a)));
                }
                g.holes.push_back(h);
            }
        } else if (layout == 1) {
            int m = ri(2, 4);
            double al = runit() * 2 * gen::PI, ca = std::cos(al), sa = std::sin(al);
            double pitch = 1.2 * rin / m, half = 0.45 * rin;  // strips along direction al, stacked perpendicular to it
            for (int j = 0; j < m; j++) {
                double o = (j - (m - 1) / 2.0) * pitch, t = pitch * (0.15 + 0.6 * runit()) / 2;  // thickness < pitch: disjoint
                double l0 = -half * (0.6 + 0.4 * runit()), l1 = half * (0.6 + 0.4 * runit());
                std::vector<LatLng> h;
                auto P = [&](double u, double v) { return mapPt(u * ca - v * sa, u * sa + v * ca); };
                if (rbool()) {  // rectangle
                    h.push_back(P(l0, o - t)); h.push_back(P(l1, o - t)); h.push_back(P(l1, o + t)); h.push_back(P(l0, o + t));
                } else {  // thin triangle
                    h.push_back(P(l0, o - t)); h.push_back(P(l1, o)); h.push_back(P(l0, o + t));
                }
                g.holes.push_back(h);
            }
        } else if (layout == 2) {
            double a = 0.55 * rin, th = a * (0.2 + 0.3 * runit());  // L occupies the square [-a,a]^2 minus its upper-right part
            double al = runit() * 2 * gen::PI, ca = std::cos(al), sa = std::sin(al);
            auto P = [&](double u, double v) { return mapPt(u * ca - v * sa, u * sa + v * ca); };
            std::vector<LatLng> L = {P(-a, -a), P(a, -a), P(a, -a + th), P(-a + th, -a + th), P(-a + th, a), P(-a, a)};
            g.holes.push_back(L);
            int extra = ri(1, 2);
            for (int j = 0; j < extra; j++) {
                // small holes inside the notch (-a+th, a) x (-a+th, a), clear of the L
                double lo2 = -a + th * 1.3, hi2 = a, w2 = (hi2 - lo2);
                double cx = lo2 + w2 * (j == 0 ? 0.3 : 0.75), cy = lo2 + w2 * (j == 0 ? 0.3 : 0.75), r2 = w2 * 0.18 * (0.3 + 0.7 * runit());
                int hn = ri(3, 6);
                std::vector<LatLng> h;
                for (int i = 0; i < hn; i++) {
                    double an = (i + 0.1 + 0.8 * runit()) * 2 * gen::PI / hn;
                    h.push_back(P(cx + r2 * std::cos(an), cy + r2 * std::sin(an)));
                }
                g.holes.push_back(h);
            }
        } else if (layout == 4) {
            double al = runit() * 2 * gen::PI, ca = std::cos(al), sa = std::sin(al);
            auto P = [&](double u, double v) { return mapPt(u * ca - v * sa, u * sa + v * ca); };
            double hw = 0.6 * rin, hh = 0.35 * rin + 0.2 * rin * runit();
            int m = ri(1, 3);
            double Rc = std::max(R / w, 1e-9);
            std::vector<LatLng> h;
            h.push_back(P(-hw, -hh));
            h.push_back(P(hw, -hh));
            h.push_back(P(hw, hh));
            for (int j = m - 1; j >= 0; j--) {
                double x = -hw + 2 * hw * (j + 0.3 + 0.4 * runit()) / m;
                double sw = std::min(0.8 * hw / m, (0.3 + 1.2 * runit()) / Rc) / 2;
                double d = 2 * hh * (0.5 + 0.45 * runit());
                h.push_back(P(x + sw, hh));
                h.push_back(P(x + sw, hh - d));
                h.push_back(P(x - sw, hh - d));
                h.push_back(P(x - sw, hh));
            }
            h.push_back(P(-hw, hh));
            g.holes.push_back(h);
        } else if (layout == 3) {
            int m = ri(4, 6);
            double hd = 0.6 * rin, hr = hd * std::sin(gen::PI / m) * 0.7;
            for (int j = 0; j < m; j++) {
                double th = (j + 0.5) * 2 * gen::PI / m, rr0 = hr * (0.3 + 0.7 * runit());
                int hn = ri(3, 5);
                std::vector<LatLng> h;
                for (int i = 0; i < hn; i++) {
                    double an = (i + 0.1 + 0.8 * runit()) * 2 * gen::PI / hn;
                    h.push_back(mapPt(hd * std::cos(th) + rr0 * std::cos(an), hd * std::sin(th) + rr0 * std::sin(an)));
                }
                g.holes.push_back(h);
            }
        }
        // present the holes in a generated order (hole loops are indexed; a slip in the indexing must meet every order)
        for (size_t i = g.holes.size(); i > 1; i--) std::swap(g.holes[i - 1], g.holes[(size_t)ri(0, (int)i - 1)]);
    }
    return g;
}

// candidate cells: every cell whose centre could be inside the polygon (disk around the centre cell covering the
// circumscribed circle plus margin); gridDisk is used only to enumerate (validated by C05)
inline bool candidates(const GPoly &g, int res, std::vector<H3Index> &out, int64_t cap = 400000) {
    if (g.shape == 6) {  // wide band: every cell of the resolution
        if (res > 3) return false;
        int zero[16] = {0};
        out.clear();
        for (int bc = 0; bc < 122; bc++) {
            uint64_t base = ref::make_cell(0, bc, zero);
            int64_t n = ref::children_count(base, res);
            for (int64_t i = 0; i < n; i++) out.push_back(ref::child_at(base, res, i));
        }
        return true;
    }
    LatLng c = {g.clat, g.clng};
    H3Index h0 = gen::cellAt(c, res);
    gq::V cv = gq::fromLL(c.lat, c.lng);
    Q rmax = 0;
    for (auto &v : g.outer) {
        Q d = gq::angle(cv, gq::fromLL(v.lat, v.lng));
        if (d > rmax) rmax = d;
    }
    // lat/lng-straight edges bulge poleward relative to great circles: 25% + 3 rings of slack; pentagon-distorted spacing 0.55
    int k = (int)((double)rmax * 1.25 / (gen::cellWidth(res) * 0.55)) + 4;
    int64_t n = 0;
    if (maxGridDiskSize(k, &n) || n > cap) return false;
    out.assign((size_t)n, 0);
    if (gridDisk(h0, k, out.data())) return false;
    out.erase(std::remove(out.begin(), out.end(), (H3Index)0), out.end());
    return true;
}

}  // namespace pq
