// allocmodel.hpp — model allocator bound to the second library copy through H3_ALLOC_PREFIX=verif_ (DESIGN.md §4 C16/C17).
// Tracks the live-block set, counts allocation calls, and fails according to a plan:
//   failAt = n  (n >= 1): the n-th allocation call fails; sticky: also every later one.
// A free of a block that is not live (double free / foreign pointer) is recorded, never executed.
#pragma once
#include <cstdlib>
#include <cstring>
#include <unordered_set>

namespace am {
struct Model {
    std::unordered_set<void *> live;
    long calls = 0;      // allocation calls (malloc/calloc/realloc) since reset
    long failAt = 0;     // 0 = never
    bool sticky = false;
    long failed = 0;     // allocations that were made to fail
    long badFrees = 0;   // frees of non-live pointers
    long frees = 0;
    size_t bytes = 0;
    void reset(long at = 0, bool st = false) {
        // blocks still live from a previous (leaky) call are released for real so that the process does not grow
        for (void *p : live) std::free(p);
        live.clear();
        calls = 0; failAt = at; sticky = st; failed = 0; badFrees = 0; frees = 0; bytes = 0;
    }
    bool shouldFail() {
        calls++;
        if (failAt > 0 && (calls == failAt || (sticky && calls > failAt))) { failed++; return true; }
        return false;
    }
};
inline Model &M() {
    static Model m;
    return m;
}
}  // namespace am

extern "C" {
inline void *verif_malloc_impl(size_t n) {
    if (am::M().shouldFail()) return nullptr;
    void *p = std::malloc(n ? n : 1);
    if (p) { am::M().live.insert(p); am::M().bytes += n; }
    return p;
}
void *verif_malloc(size_t n) { return verif_malloc_impl(n); }
void *verif_calloc(size_t a, size_t b) {
    if (am::M().shouldFail()) return nullptr;
    void *p = std::calloc(a ? a : 1, b ? b : 1);
    if (p) { am::M().live.insert(p); am::M().bytes += a * b; }
    return p;
}
void *verif_realloc(void *q, size_t n) {
    if (am::M().shouldFail()) return nullptr;
    if (q && !am::M().live.count(q)) { am::M().badFrees++; return nullptr; }
    if (q) am::M().live.erase(q);
    void *p = std::realloc(q, n ? n : 1);
    if (p) am::M().live.insert(p);
    else if (q) am::M().live.insert(q);
    return p;
}
void verif_free(void *p) {
    if (!p) return;
    am::M().frees++;
    if (!am::M().live.count(p)) { am::M().badFrees++; return; }
    am::M().live.erase(p);
    std::free(p);
}
}
