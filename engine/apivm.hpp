// apivm.hpp — the API virtual machine shared by C12 (libFuzzer target) and C18 (thread harness) (DESIGN.md §4 C12)
//
// Byte strings are decoded into API programs. The byte string is decoded into a PROGRAM over a register file of 8 index
// values: a register initialisation section followed by up to 12 API calls. Every argument is
// decoded through a class byte (so byte-level mutation moves between "valid", "near-valid",
// "out of domain" and "raw" arguments instead of dying in validation), every output buffer is a
// heap block of EXACTLY the documented size (ASan red zones on both sides), results are written
// back into registers so that later calls consume them.
//
// Oracle (inside the target):
//   * no sanitizer report, no assertion (library built without NDEBUG: NEVER()/ALWAYS() are live)
//   * every H3Error return value is one of the 16 documented codes 0..15
//   * out-of-domain scalar arguments yield their documented code, never success (table below: only
//     (function, argument) pairs whose code is named in a property statement / the API docs)
//   * closure: a successful call whose index arguments were all valid cells returns valid cells
//   * describeH3Error returns a readable NUL-terminated string for every int
// A violation prints "C12-VIOLATION ..." and traps; libFuzzer saves the input as crash-<sha1>,
// which is the replay file (run the binary with the file as its only argument).
#pragma once
#include <cstdarg>
#include <cerrno>
#include <cfloat>
#include <climits>
#include <cmath>
#include <cstdint>
#include <cstdio>
#include <cstdlib>
#include <cstring>
#include <string>
#include <unordered_set>
#include <vector>
#include <unistd.h>
#include <time.h>

extern "C" {
#include "h3api.h"
}
#include "h3ref.hpp"

namespace apivm {


// ------------------------------------------------------------------ byte reader
struct Rd {
    const uint8_t *p;
    size_t n, i = 0;
    uint8_t u8() { return i < n ? p[i++] : 0; }
    uint16_t u16() { return (uint16_t)(u8() | (u8() << 8)); }
    uint32_t u32() { return (uint32_t)u16() | ((uint32_t)u16() << 16); }
    uint64_t u64() { return (uint64_t)u32() | ((uint64_t)u32() << 32); }
    bool empty() const { return i >= n; }
};

// ------------------------------------------------------------------ statistics
enum { NFN = 80 };
struct Stats {
    uint64_t execs = 0, calls = 0, skipped_size = 0, nontrivial_programs = 0;
    uint64_t by_fn_rc[NFN][17] = {};
    uint64_t ns_by_op[64] = {};
    const char *fn_name[NFN] = {};
    std::unordered_set<uint64_t> behaviours;  // (fn, rc, argument classes)
    std::unordered_set<uint64_t> traces;      // hash of the (fn, rc, classes) sequence of a non-trivial program
    std::vector<std::string> samples;
    uint64_t table_hits = 0;    // calls with an out-of-domain scalar for which the table names a code
    uint64_t closure_cells = 0; // cells checked by the closure clause
    std::string frag;
};
// The main thread's statistics live in an ordinary static object: exit() destroys thread_local objects of the main thread BEFORE it
// runs atexit handlers, and the fragment is written from one. Other threads (C18 workers) point t_stats at a Stats of their own.
inline Stats g_main_stats;
inline thread_local Stats *t_stats = nullptr;
inline Stats &stats() { return t_stats ? *t_stats : g_main_stats; }

// known findings (known_findings.json, status=known): excluded by construction, counted, so that the campaign continues
inline std::vector<std::string> g_known;
inline std::vector<uint64_t> g_known_hits;
inline bool known(const char *key) {
    for (size_t i = 0; i < g_known.size(); i++)
        if (g_known[i] == key) {
            __atomic_fetch_add(&g_known_hits[i], 1, __ATOMIC_RELAXED);
            return true;
        }
    return false;
}

inline thread_local bool g_trace = false;
inline thread_local std::string g_tracebuf;
inline thread_local uint64_t g_prog_hash;
inline thread_local bool g_prog_nontrivial;
// digest of everything the program observed (return codes, scalar outputs, output buffers): equal inputs must give equal digests
inline thread_local uint64_t g_obs = 0;
inline void obs_bytes(const void *p, size_t n) {
    const unsigned char *b = (const unsigned char *)p;
    uint64_t h = g_obs;
    for (size_t i = 0; i < n; i++) { h ^= b[i]; h *= 1099511628211ULL; }
    g_obs = h ^ (n * 0x9E3779B97F4A7C15ULL);
}
template <class T> inline void OBS(const T &v) { obs_bytes(&v, sizeof(T)); }
// violation handler: default prints and traps (libFuzzer saves the input); a harness may install its own
inline void (*g_violation_handler)(const std::string &) = nullptr;

inline void dump_fragment() {
    if (stats().frag.empty()) return;
    std::string path = stats().frag + "." + std::to_string((long)getpid()) + ".json";
    FILE *f = fopen(path.c_str(), "w");
    if (!f) return;
    fprintf(f, "{\"execs\":%llu,\"calls\":%llu,\"skipped_size\":%llu,\"nontrivial_programs\":%llu,\"table_hits\":%llu,\"closure_cells\":%llu,\n",
            (unsigned long long)stats().execs, (unsigned long long)stats().calls, (unsigned long long)stats().skipped_size,
            (unsigned long long)stats().nontrivial_programs, (unsigned long long)stats().table_hits, (unsigned long long)stats().closure_cells);
    fprintf(f, "\"ns_by_op\":[");
    for (int i = 0; i < 64; i++) fprintf(f, "%s%llu", i ? "," : "", (unsigned long long)stats().ns_by_op[i]);
    fprintf(f, "],\n");
    fprintf(f, "\"excluded_known\":{");
    for (size_t i = 0; i < g_known.size(); i++) fprintf(f, "%s\"%s\":%llu", i ? "," : "", g_known[i].c_str(), (unsigned long long)g_known_hits[i]);
    fprintf(f, "},\n\"fn_rc\":{");
    bool first = true;
    for (int i = 0; i < NFN; i++) {
        if (!stats().fn_name[i]) continue;
        fprintf(f, "%s\"%s\":[", first ? "" : ",", stats().fn_name[i]);
        for (int r = 0; r < 17; r++) fprintf(f, "%s%llu", r ? "," : "", (unsigned long long)stats().by_fn_rc[i][r]);
        fprintf(f, "]");
        first = false;
    }
    fprintf(f, "},\n\"behaviours\":[");
    first = true;
    for (uint64_t b : stats().behaviours) {
        fprintf(f, "%s%llu", first ? "" : ",", (unsigned long long)b);
        first = false;
    }
    fprintf(f, "],\n\"traces\":[");
    first = true;
    for (uint64_t b : stats().traces) {
        fprintf(f, "%s%llu", first ? "" : ",", (unsigned long long)b);
        first = false;
    }
    fprintf(f, "],\n\"samples\":[");
    for (size_t i = 0; i < stats().samples.size(); i++) {
        std::string e;
        for (char c : stats().samples[i]) {
            if (c == '"' || c == '\\') e += '\\';
            if ((unsigned char)c >= 0x20) e += c;
        }
        fprintf(f, "%s\"%s\"", i ? "," : "", e.c_str());
    }
    fprintf(f, "]}\n");
    fclose(f);
}

inline void violation(const std::string &what) {
    if (g_violation_handler) { g_violation_handler(what); return; }
    fprintf(stderr, "C12-VIOLATION %s\n", what.c_str());
    if (!g_tracebuf.empty()) fprintf(stderr, "program so far: %s\n", g_tracebuf.c_str());
    fflush(stderr);
    dump_fragment();
    __builtin_trap();
}

inline std::string sfmt(const char *f, ...) __attribute__((format(printf, 1, 2)));
inline std::string sfmt(const char *f, ...) {
    char buf[1024];
    va_list ap;
    va_start(ap, f);
    vsnprintf(buf, sizeof buf, f, ap);
    va_end(ap);
    return buf;
}

// ------------------------------------------------------------------ exact-size heap buffers
template <class T>
struct Buf {
    T *p;
    size_t n;
    bool observe;
    explicit Buf(size_t n_, int fill = 0, bool observe_ = true) : n(n_), observe(observe_) {
        p = (T *)malloc(n * sizeof(T));  // exactly n elements; ASan red zone follows immediately
        if (n && !p) abort();
        if (n) memset((void *)p, fill, n * sizeof(T));
    }
    ~Buf() {
        if (observe && n) obs_bytes(p, n * sizeof(T));
        free(p);
    }
    Buf(const Buf &) = delete;
};

// ------------------------------------------------------------------ argument classes
enum CellClass { CC_HEX = 0, CC_PENT = 1, CC_INVALID = 2 };
inline int cell_class(uint64_t h) {
    if (!ref::valid_cell(h)) return CC_INVALID;
    return ref::is_pentagon(h) ? CC_PENT : CC_HEX;
}

inline uint64_t make_valid(uint64_t x, int forceRes = -1, int pentMode = 0) {
    // x supplies res (4 bits), base cell (7 bits), 15 x 3 bits of digits
    int res = forceRes >= 0 ? forceRes : (int)(x & 15);
    int bc = (int)((x >> 4) & 127) % 122;
    if (pentMode) bc = ref::PENT_BC[((x >> 4) & 127) % 12];
    int d[16] = {0};
    uint64_t y = x >> 11;
    int lead0 = pentMode == 2 ? (int)((x >> 60) & 15) : 0;  // pentagon chain: leading zeros
    for (int r = 1; r <= res; r++) {
        d[r] = (int)(y & 7) % 7;
        y >>= 3;
        if (pentMode == 1) d[r] = 0;
        if (pentMode == 2 && r <= lead0) d[r] = 0;
    }
    if (ref::is_pent_bc(bc)) {
        for (int r = 1; r <= res; r++) {
            if (d[r] == 0) continue;
            if (d[r] == 1) d[r] = 2 + (int)((x >> 57) % 5);
            break;
        }
    }
    return ref::make_cell(res, bc, d);
}

struct VM {
    Rd rd;
    uint64_t R[8];
    explicit VM(const uint8_t *d, size_t n) : rd{d, n} {}

    // ---- decoders
    uint64_t dec_index() {
        // fixed width (11 bytes) so that programs can be constructed as well as mutated: kind, 8 payload bytes, two extra bytes
        uint8_t k = rd.u8();
        uint64_t x = rd.u64();
        uint8_t e1 = rd.u8(), e2 = rd.u8();
        (void)e2;
        switch (k % 16) {
            case 14:
            case 15: {  // a true neighbour of another register (the library is only an input source here)
                uint64_t h = R[x & 7];
                if (!ref::valid_cell(h)) return h;
                H3Index out[7] = {0};
                if (gridDisk(h, 1, out) != E_SUCCESS) return h;
                uint64_t n = out[1 + (x >> 3) % 6];
                return n ? n : h;
            }
            case 0: return x;
            case 1: return make_valid(x);
            case 2: return make_valid(x, -1, 1);  // pentagon
            case 3: return make_valid(x, -1, 2);  // pentagon chain descendant
            case 4: {                             // flipped bits
                uint64_t h = make_valid(x);
                int nf = 1 + (int)((x >> 62) & 1) + (int)((x >> 61) & 1);
                uint8_t b = e1;
                for (int i = 0; i < nf; i++) h ^= 1ULL << ((b + 23 * i) & 63);
                return h;
            }
            case 5: {  // other mode
                uint64_t h = make_valid(x);
                return (h & ~(15ULL << 59)) | ((uint64_t)(e1 & 15) << 59);
            }
            case 6: {  // reserved bits
                uint64_t h = make_valid(x);
                return h | ((uint64_t)(e1 & 7) << 56);
            }
            case 7: {  // digit 7 inside the resolution, or non-7 after it (half of the time below a pentagon, where digits are re-based)
                uint64_t h = make_valid(x, -1, ((x >> 62) & 1) ? 2 : 0);
                int pos = 1 + e1 % 15;
                int dg = (pos <= ref::res_of(h)) ? 7 : e2 % 7;
                h &= ~(7ULL << (3 * (15 - pos)));
                return h | ((uint64_t)dg << (3 * (15 - pos)));
            }
            case 8: {  // deleted sub-sequence under a pentagon
                uint64_t h = make_valid(x, -1, 2);
                int res = ref::res_of(h);
                if (!res) return h;
                int pos = 1 + e1 % res;
                for (int r = 1; r < pos; r++) h &= ~(7ULL << (3 * (15 - r)));
                h &= ~(7ULL << (3 * (15 - pos)));
                return h | (1ULL << (3 * (15 - pos)));
            }
            case 9: {  // directed-edge shaped
                uint64_t h = make_valid(x, -1, (x >> 63) ? 1 : 0);
                return (h & ~(15ULL << 59) & ~(7ULL << 56)) | (2ULL << 59) | ((uint64_t)(e1 & 7) << 56);
            }
            case 10: {  // vertex shaped
                uint64_t h = make_valid(x, -1, (x >> 63) ? 1 : 0);
                return (h & ~(15ULL << 59) & ~(7ULL << 56)) | (4ULL << 59) | ((uint64_t)(e1 & 7) << 56);
            }
            case 11: {
                static const uint64_t sp[] = {0, ~0ULL, 0x7fffffffffffffffULL, 0x8000000000000000ULL, 0x08001fffffffffffULL,
                                              0x08f0000000000000ULL, 0x0800000000000000ULL, 0x08ffffffffffffffULL};
                return sp[x & 7];
            }
            case 12: {  // relative of another register: same parent, other last digit(s)
                uint64_t h = R[x & 7];
                int res = (int)((h >> 52) & 15);
                if (!res) return h;
                h &= ~(7ULL << (3 * (15 - res)));
                h |= ((x >> 3) % 7) << (3 * (15 - res));
                if (res > 1 && ((x >> 8) & 1)) {
                    h &= ~(7ULL << (3 * (15 - res + 1)));
                    h |= ((x >> 9) % 7) << (3 * (15 - res + 1));
                }
                return h;
            }
            default: return R[x & 7];
        }
    }
    // a register as argument; in 6 of 32 selector values a near-miss of it, so that every function sees arguments that are one rule away
    // from valid at a useful rate (coverage feedback alone does not find "digit 7 two levels below a pentagon" in a minute)
    uint64_t reg() {
        uint8_t b = rd.u8();
        uint64_t h = R[b & 7];
        int m = b >> 3;
        if (m < 26) return h;
        int res = (int)((h >> 52) & 15);
        uint8_t a = rd.u8();
        switch (m) {
            case 26: {  // digit 7 at a position inside the resolution
                if (!res) return h;
                int pos = 1 + a % res;
                return h | (7ULL << (3 * (15 - pos)));
            }
            case 27: {  // digit 1 (K axis) at a position inside the resolution: the deleted sub-sequence when below a pentagon
                if (!res) return h;
                int pos = 1 + a % res;
                return (h & ~(7ULL << (3 * (15 - pos)))) | (1ULL << (3 * (15 - pos)));
            }
            case 28: return h ^ (1ULL << (a & 63));
            case 29: {  // same digits, resolution field one finer (the former first unused digit 7 is now inside) or one coarser
                int nr = (a & 1) ? res + 1 : res - 1;
                if (nr < 0 || nr > 15) return h;
                return (h & ~(15ULL << 52)) | ((uint64_t)nr << 52);
            }
            case 30: return (h & ~(127ULL << 45)) | ((uint64_t)ref::PENT_BC[a % 12] << 45);  // same digits below a pentagon base cell
            default: return (h & ~(127ULL << 45)) | ((uint64_t)(a & 127) << 45);            // any base cell number 0..127
        }
    }
    int dec_int() {
        uint8_t k = rd.u8();
        switch (k % 8) {
            case 0: return k >> 4;                 // 0..15
            case 1: return (int)(rd.u8() % 22) - 3;  // -3..18
            case 2: return (int)rd.u32();
            case 3: {
                static const int ex[] = {INT_MIN, INT_MAX, -1, 16, INT_MAX - 1, 1 << 30, -(1 << 30), INT_MIN + 1};
                return ex[(k >> 3) & 7];
            }
            case 4: return rd.u8() % 65;
            case 5: return -(int)(rd.u8() % 65);
            case 6: return (k >> 3) & 7;  // 0..7
            default: return (int)(int16_t)rd.u16();
        }
    }
    int dec_res() {  // mostly valid resolutions
        uint8_t k = rd.u8();
        if ((k & 3) != 3) return k >> 4;
        return dec_int();
    }
    int dec_k() {
        uint8_t k = rd.u8();
        if ((k & 3) != 3) return (k >> 2) % 7;  // 0..6
        return dec_int();
    }
    uint32_t dec_flags() {
        uint8_t k = rd.u8();
        if ((k & 3) != 3) return (k >> 2) & 3;  // valid containment modes; 0 for the legacy functions via & 0
        if (k & 4) return rd.u32();
        return (k >> 3);  // 0..31
    }
    double dec_double(int kind /*0 lat, 1 lng, 2 other*/) {
        uint8_t k = rd.u8();
        switch (k % 12) {
            case 0: {
                uint64_t b = rd.u64();
                double d;
                memcpy(&d, &b, 8);
                return d;
            }
            case 1:
            case 2:
            case 3: {  // in range
                double u = rd.u32() / 4294967296.0;
                return kind == 0 ? (u - 0.5) * M_PI : kind == 1 ? (u - 0.5) * 2 * M_PI : (u - 0.5) * 400;
            }
            case 4: return NAN;
            case 5: return INFINITY;
            case 6: return -INFINITY;
            case 7: return (k & 16) ? -0.0 : 0.0;
            case 8: {
                static const double hg[] = {1e300, -1e308, DBL_MAX, -DBL_MAX, 1e19, -1e19, 4e9, 1e16};
                return hg[(k >> 4) & 7];
            }
            case 9: {
                static const double tn[] = {DBL_MIN, -DBL_MIN, 4.9e-324, -4.9e-324, 1e-300, DBL_EPSILON, -DBL_EPSILON, 1e-17};
                return tn[(k >> 4) & 7];
            }
            case 10: {
                static const double sp[] = {M_PI_2, -M_PI_2, M_PI, -M_PI, 2 * M_PI, -2 * M_PI, 3 * M_PI, 100 * M_PI};
                double e = ((int)rd.u8() - 128) * 1e-15;
                return sp[(k >> 4) & 7] + e;
            }
            default: {  // outer longitude range / beyond
                double u = rd.u32() / 4294967296.0;
                return (u - 0.5) * 8 * M_PI;
            }
        }
    }
    static bool in_latlng_domain(double lat, double lng) { return std::isfinite(lat) && std::isfinite(lng); }
};

// loops and polygons decoded into aligned heap blocks of exactly numVerts elements
struct Poly {
    std::vector<Buf<LatLng> *> blocks;
    Buf<GeoLoop> *holes = nullptr;
    GeoPolygon gp;
    ~Poly() {
        for (auto *b : blocks) delete b;
        delete holes;
    }
};

inline void dec_loop(VM &vm, GeoLoop &gl, Poly &P, int maxv, bool coherent, double clat, double clng, double scale) {
    int nv = vm.rd.u8() % (maxv + 1);
    auto *b = new Buf<LatLng>((size_t)nv);
    P.blocks.push_back(b);
    for (int i = 0; i < nv; i++) {
        if (coherent && (vm.rd.u8() & 15)) {
            double a = vm.rd.u16() / 65536.0 * 2 * M_PI, r = scale * (0.3 + vm.rd.u8() / 256.0);
            b->p[i].lat = clat + r * sin(a);
            b->p[i].lng = clng + r * cos(a);
        } else {
            b->p[i].lat = vm.dec_double(0);
            b->p[i].lng = vm.dec_double(1);
        }
    }
    gl.numVerts = nv;
    gl.verts = b->p;
}
inline void dec_polygon(VM &vm, Poly &P) {
    uint8_t m = vm.rd.u8();
    bool coherent = (m & 3) != 0;
    double clat = 0, clng = 0, scale = 0;
    if (coherent) {
        clat = (vm.rd.u16() / 65536.0 - 0.5) * M_PI;
        clng = (vm.rd.u16() / 65536.0 - 0.5) * 2 * M_PI;
        if ((m & 3) == 2) clng = (vm.rd.u8() & 1 ? M_PI : -M_PI) + ((int)vm.rd.u8() - 128) * 1e-4;  // antimeridian
        if ((m & 3) == 3) clat = (vm.rd.u8() & 1 ? M_PI_2 : -M_PI_2) + ((int)vm.rd.u8() - 128) * 1e-3; // polar
        scale = pow(10.0, -(double)((m >> 2) % 8)) * 0.5;
    }
    dec_loop(vm, P.gp.geoloop, P, 10, coherent, clat, clng, scale);
    int nh = (m >> 5) % 3;
    P.holes = new Buf<GeoLoop>((size_t)nh, 0, false);
    for (int i = 0; i < nh; i++) dec_loop(vm, P.holes->p[i], P, 5, coherent, clat, clng, scale * 0.3);
    P.gp.numHoles = nh;
    P.gp.holes = P.holes->p;
}

// Work bound (not part of the oracle): a polygon whose extent is more than ~40 cell edges at the requested resolution makes
// the fills iterate over 1e5+ cells (a zero-width "polygon" from the equator to lat 1e19 at res 13 ran for minutes). The
// resolution is lowered until the extent is below that; invalid resolutions are passed through unchanged.
inline int clamp_res(const Poly &P, int res) {
    if (res < 0 || res > 15) return res;
    double lo = 1e300, hi = -1e300, wl = 1e300, wh = -1e300, w2l = 1e300, w2h = -1e300;
    bool wild = false;
    auto scan = [&](const GeoLoop &g) {
        for (int i = 0; i < g.numVerts; i++) {
            double la = g.verts[i].lat, ln = g.verts[i].lng;
            if (!std::isfinite(la) || !std::isfinite(ln) || fabs(la) > 1.6 || fabs(ln) > 6.3) { wild = true; continue; }
            lo = fmin(lo, la); hi = fmax(hi, la);
            wl = fmin(wl, ln); wh = fmax(wh, ln);
            double l2 = ln < 0 ? ln + 2 * M_PI : ln;
            w2l = fmin(w2l, l2); w2h = fmax(w2h, l2);
        }
    };
    scan(P.gp.geoloop);
    for (int h = 0; h < P.gp.numHoles; h++) scan(P.gp.holes[h]);
    double extent = wild ? 10 : fmax(hi - lo, fmin(wh - wl, w2h - w2l));
    if (!(extent >= 0)) extent = 0;
    while (res > 0 && extent / (0.174 * pow(7.0, -res / 2.0)) > 40) res--;
    return res;
}

inline int g_trace_level = 0;
inline thread_local int g_force_op = -1;  // >= 0: every call of the program is this function (C18 single-function templates)
inline void trace_poly(const char *fn, const Poly &P, int res, uint32_t flags) {
    if (g_trace_level < 2) return;
    fprintf(stderr, "PRE %s res=%d flags=%u outer=[", fn, res, flags);
    for (int i = 0; i < P.gp.geoloop.numVerts; i++) fprintf(stderr, "(%.17g,%.17g)", P.gp.geoloop.verts[i].lat, P.gp.geoloop.verts[i].lng);
    fprintf(stderr, "]");
    for (int h = 0; h < P.gp.numHoles; h++) {
        fprintf(stderr, " hole=[");
        for (int i = 0; i < P.gp.holes[h].numVerts; i++) fprintf(stderr, "(%.17g,%.17g)", P.gp.holes[h].verts[i].lat, P.gp.holes[h].verts[i].lng);
        fprintf(stderr, "]");
    }
    fprintf(stderr, "\n");
}

// a cell set decoded into an exactly-sized block
inline void dec_set(VM &vm, std::vector<uint64_t> &v, int maxn) {
    uint8_t m = vm.rd.u8();
    int n = vm.rd.u8() % (maxn + 1);
    switch (m % 4) {
        case 0:
            for (int i = 0; i < n; i++) v.push_back(vm.reg());
            break;
        case 1: {  // sibling family of a register (compactable)
            uint64_t h = vm.reg();
            int res = (int)((h >> 52) & 15);
            for (int i = 0; i < n; i++) {
                uint64_t c = h;
                if (res) {
                    c &= ~(7ULL << (3 * (15 - res)));
                    c |= (uint64_t)(i % 7) << (3 * (15 - res));
                    if (res > 1 && i >= 7) {
                        c &= ~(7ULL << (3 * (15 - res + 1)));
                        c |= (uint64_t)((i / 7) % 7) << (3 * (15 - res + 1));
                    }
                }
                v.push_back(c);
            }
            break;
        }
        case 2:
            for (int i = 0; i < n; i++) v.push_back(vm.dec_index());
            break;
        default: {  // disk around a register (valid, connected) with some members dropped
            uint64_t h = vm.reg();
            if (ref::valid_cell(h)) {
                H3Index out[7] = {0};
                if (gridDisk(h, 1, out) == E_SUCCESS) {
                    uint8_t drop = vm.rd.u8();
                    for (int i = 0; i < 7 && (int)v.size() < n; i++)
                        if (out[i] && !((drop >> i) & 1)) v.push_back(out[i]);
                }
            }
            break;
        }
    }
}

// ------------------------------------------------------------------ the call dispatcher
struct Call {
    int fn;
    const char *name;
    uint64_t cls = 0;  // argument classes, mixed into the behaviour key
    int ncls = 0;
    bool all_cells_valid = true;
    // arguments, rendered lazily (only when tracing or reporting)
    struct A {
        char t;
        const char *label;
        uint64_t u;
        long long i;
        double d;
    } a[48];
    int na = 0;
    void push(char t, const char *label, uint64_t u, long long i, double d) {
        if (na < 48) a[na++] = A{t, label, u, i, d};
    }
    std::string d() const {
        std::string r;
        for (int k = 0; k < na; k++) {
            if (k) r += ",";
            if (a[k].label) { r += a[k].label; r += "="; }
            if (a[k].t == 'x') r += sfmt("%016llx", (unsigned long long)a[k].u);
            else if (a[k].t == 'i') r += sfmt("%lld", a[k].i);
            else r += sfmt("%.17g", a[k].d);
        }
        return r;
    }
};

#define FN(id, nm)          \
    Call C;                 \
    C.fn = id;              \
    C.name = nm;            \
    stats().fn_name[id] = nm;

inline void add_cls(Call &C, int c) {
    C.cls = C.cls * 7 + (uint64_t)c + 1;
    C.ncls++;
}
inline void arg_cell(Call &C, uint64_t h) {
    int c = cell_class(h);
    add_cls(C, c);
    if (c == CC_INVALID) C.all_cells_valid = false;
    C.push('x', nullptr, h, 0, 0);
}
inline void arg_int(Call &C, long long v, bool inDomain) {
    add_cls(C, inDomain ? 0 : 1);
    C.push('i', nullptr, 0, v, 0);
}
inline void arg_dbl(Call &C, double v) {
    add_cls(C, std::isfinite(v) ? 0 : 1);
    C.push('d', nullptr, 0, 0, v);
}

// record the result; rc must be a documented code
inline void done(Call &C, int rc) {
    stats().calls++;
    OBS(rc);
    if (rc < 0 || rc > 15) violation(sfmt("%s(%s) returned %d, which is not one of the documented codes 0..15", C.name, C.d().c_str(), rc));
    stats().by_fn_rc[C.fn][rc]++;
    uint64_t key = ((uint64_t)C.fn << 48) ^ ((uint64_t)rc << 40) ^ C.cls;
    stats().behaviours.insert(key);
    g_prog_hash = (g_prog_hash ^ key) * 1099511628211ULL;
    g_prog_nontrivial = true;
    if (g_trace) g_tracebuf += sfmt("%s(%s)->%d; ", C.name, C.d().c_str(), rc);
}
// the documented code for an out-of-domain scalar: any code in `allowed` (bit mask) — never success
inline void expect_code(Call &C, int rc, uint32_t allowedMask, const char *why) {
    stats().table_hits++;
    if (rc == 0 || !((allowedMask >> rc) & 1))
        violation(sfmt("%s(%s) returned %d for an out-of-domain argument (%s); documented code mask 0x%x", C.name, C.d().c_str(), rc, why, allowedMask));
}
inline void closure(Call &C, int rc, const uint64_t *cells, size_t n, bool allowNull) {
    if (rc != 0 || !C.all_cells_valid) return;
    for (size_t i = 0; i < n; i++) {
        if (cells[i] == 0 && allowNull) continue;
        stats().closure_cells++;
        if (!ref::valid_cell(cells[i]))
            violation(sfmt("%s(%s) succeeded on valid arguments but output %zu = %016llx is not a valid cell", C.name, C.d().c_str(), i, (unsigned long long)cells[i]));
    }
}
#define M(code) (1u << (code))

const int64_t CAP_DISK = 4000, CAP_SAFE = 800, CAP_CHILDREN = 20000, CAP_POLY = 4000, CAP_PATH = 5000, CAP_UNCOMPACT = 20000;

inline void op(VM &vm) {
    uint8_t o = vm.rd.u8();
    if (g_force_op >= 0) o = (uint8_t)g_force_op;
    uint8_t dst = vm.rd.u8() & 7;
    switch (o % 62) {
        case 0: {
            FN(0, "latLngToCell");
            LatLng g = {vm.dec_double(0), vm.dec_double(1)};
            int res = vm.dec_res();
            arg_dbl(C, g.lat); arg_dbl(C, g.lng); arg_int(C, res, res >= 0 && res <= 15);
            H3Index out = 0x5e5e5e5e5e5e5e5eULL;
            int rc = latLngToCell(&g, res, &out);
            done(C, rc);
            OBS(out);
            bool badRes = res < 0 || res > 15, badLL = !std::isfinite(g.lat) || !std::isfinite(g.lng);
            if (badRes || badLL) {
                expect_code(C, rc, (badRes ? M(E_RES_DOMAIN) : 0) | (badLL ? M(E_LATLNG_DOMAIN) : 0), "res outside 0..15 / non-finite coordinate");
                if (out != 0x5e5e5e5e5e5e5e5eULL) violation(sfmt("latLngToCell(%s) failed with %d but wrote an index", C.d().c_str(), rc));
            } else {
                if (rc != 0) violation(sfmt("latLngToCell(%s) failed with %d on finite coordinates and a valid resolution", C.d().c_str(), rc));
                closure(C, rc, &out, 1, false);
                if (ref::res_of(out) != res) violation(sfmt("latLngToCell(%s) returned a cell of resolution %d", C.d().c_str(), ref::res_of(out)));
                vm.R[dst] = out;
            }
            break;
        }
        case 1: {
            FN(1, "cellToLatLng");
            uint64_t h = vm.reg(); arg_cell(C, h);
            LatLng g;
            int rc = cellToLatLng(h, &g);
            done(C, rc);
            if (rc == 0) OBS(g);
            if (rc == 0 && C.all_cells_valid && !(std::isfinite(g.lat) && std::isfinite(g.lng) && fabs(g.lat) <= M_PI_2 + 1e-9 && fabs(g.lng) <= M_PI + 1e-9))
                violation(sfmt("cellToLatLng(%s) -> (%.17g, %.17g) out of range", C.d().c_str(), g.lat, g.lng));
            if (C.all_cells_valid && rc != 0) violation(sfmt("cellToLatLng(%s) failed with %d on a valid cell", C.d().c_str(), rc));
            break;
        }
        case 2: {
            FN(2, "cellToBoundary");
            uint64_t h = vm.reg(); arg_cell(C, h);
            Buf<CellBoundary> b(1, 0xA5);
            int rc = cellToBoundary(h, b.p);
            done(C, rc);
            if (rc == 0 && (b.p->numVerts < 0 || b.p->numVerts > MAX_CELL_BNDRY_VERTS)) violation(sfmt("cellToBoundary(%s) numVerts %d", C.d().c_str(), b.p->numVerts));
            if (C.all_cells_valid && rc != 0) violation(sfmt("cellToBoundary(%s) failed with %d on a valid cell", C.d().c_str(), rc));
            break;
        }
        case 3: {
            FN(3, "maxGridDiskSize");
            int k = vm.dec_int(); arg_int(C, k, k >= 0);
            int64_t sz = -7;
            int rc = maxGridDiskSize(k, &sz);
            done(C, rc);
            if (rc == 0) OBS(sz);
            if (k < 0) expect_code(C, rc, M(E_DOMAIN), "k < 0");
            else if (rc != 0 || sz < 1) violation(sfmt("maxGridDiskSize(%d) -> rc %d size %lld", k, rc, (long long)sz));
            break;
        }
        case 4: case 5: case 6: case 7: case 8: {  // the disk family
            static const char *nm[] = {"gridDisk", "gridDiskDistances", "gridDiskUnsafe", "gridDiskDistancesUnsafe", "gridDiskDistancesSafe"};
            int w = o % 62 - 4;
            FN(4 + w, nm[w]);
            uint64_t h = vm.reg(); int k = vm.dec_k();
            arg_cell(C, h); arg_int(C, k, k >= 0);
            int64_t sz = 0;
            int src = maxGridDiskSize(k, &sz);
            if (src != 0) sz = 0;  // no documented size exists: a zero-length buffer, the call must fail without writing
            if (sz > (w == 4 ? CAP_SAFE : CAP_DISK)) { stats().skipped_size++; break; }
            Buf<H3Index> out((size_t)sz);
            Buf<int> dist((size_t)sz);
            int rc;
            switch (w) {
                case 0: rc = gridDisk(h, k, out.p); break;
                case 1: rc = gridDiskDistances(h, k, out.p, dist.p); break;
                case 2: rc = gridDiskUnsafe(h, k, out.p); break;
                case 3: rc = gridDiskDistancesUnsafe(h, k, out.p, dist.p); break;
                default: rc = gridDiskDistancesSafe(h, k, out.p, dist.p); break;
            }
            done(C, rc);
            if (k < 0) { if (w != 4) expect_code(C, rc, M(E_DOMAIN), "k < 0"); else if (rc == 0) violation(sfmt("gridDiskDistancesSafe(%s) succeeded with k<0", C.d().c_str())); break; }
            if ((w == 0 || w == 1 || w == 4) && C.all_cells_valid && rc != 0) violation(sfmt("%s(%s) failed with %d on a valid origin", C.name, C.d().c_str(), rc));
            closure(C, rc, out.p, (size_t)sz, true);
            if (rc == 0 && sz > 1) vm.R[dst] = out.p[1 + vm.rd.u8() % (sz - 1)];
            break;
        }
        case 9: {
            FN(9, "gridDisksUnsafe");
            std::vector<uint64_t> set; dec_set(vm, set, 6);
            int k = vm.dec_k();
            for (uint64_t h : set) arg_cell(C, h);
            arg_int(C, k, k >= 0);
            int64_t sz = 0;
            if (maxGridDiskSize(k, &sz) != 0) sz = 0;
            if (sz * (int64_t)set.size() > CAP_DISK) { stats().skipped_size++; break; }
            Buf<H3Index> in(set.size());
            if (!set.empty()) memcpy(in.p, set.data(), set.size() * 8);
            Buf<H3Index> out((size_t)sz * set.size());
            int rc = gridDisksUnsafe(in.p, (int)set.size(), k, out.p);
            done(C, rc);
            if (k < 0 && !set.empty()) expect_code(C, rc, M(E_DOMAIN), "k < 0");
            if (k >= 0) closure(C, rc, out.p, (size_t)sz * set.size(), true);
            break;
        }
        case 10: {
            FN(10, "gridRingUnsafe");
            uint64_t h = vm.reg(); int k = vm.dec_k();
            if (k < 0) break;  // no documented buffer size for k < 0: outside the premise (DESIGN C12)
            arg_cell(C, h); arg_int(C, k, true);
            int64_t sz = k == 0 ? 1 : 6 * (int64_t)k;
            if (sz > CAP_DISK) { stats().skipped_size++; break; }
            Buf<H3Index> out((size_t)sz);
            int rc = gridRingUnsafe(h, k, out.p);
            done(C, rc);
            closure(C, rc, out.p, (size_t)sz, false);
            if (rc == 0) vm.R[dst] = out.p[vm.rd.u8() % sz];
            break;
        }
        case 11: case 12: {  // legacy polyfill
            bool fill = (o % 62) == 12;
            FN(fill ? 12 : 11, fill ? "polygonToCells" : "maxPolygonToCellsSize");
            Poly P; dec_polygon(vm, P);
            int res = clamp_res(P, vm.dec_res()); uint32_t flags = vm.dec_flags();
            bool badFlags = flags > 3, badRes = res < 0 || res > 15;  // the legacy functions validate flags like the experimental ones
            arg_int(C, res, !badRes); arg_int(C, flags, !badFlags);
            add_cls(C, P.gp.geoloop.numVerts == 0 ? 0 : P.gp.geoloop.numVerts < 3 ? 1 : 2); add_cls(C, P.gp.numHoles);
            C.push('i', "nv", 0, P.gp.geoloop.numVerts, 0); C.push('i', "holes", 0, P.gp.numHoles, 0);
            int64_t sz = -1;
            trace_poly(C.name, P, res, flags);
            int rc = maxPolygonToCellsSize(&P.gp, res, flags, &sz);
            OBS(rc); if (rc == 0) OBS(sz);
            if (!fill) {
                done(C, rc);
                if (badFlags) expect_code(C, rc, M(E_OPTION_INVALID), "flags outside the containment modes");
                else if (badRes) expect_code(C, rc, 0xfffe, "res outside 0..15");
                if (rc == 0 && sz < 0) violation(sfmt("maxPolygonToCellsSize(%s) -> negative size %lld", C.d().c_str(), (long long)sz));
                break;
            }
            if (rc != 0) sz = 0;
            if (sz > CAP_POLY) { stats().skipped_size++; break; }
            Buf<H3Index> out((size_t)sz);
            rc = polygonToCells(&P.gp, res, flags, out.p);
            done(C, rc);
            if (badFlags) expect_code(C, rc, M(E_OPTION_INVALID), "flags outside the containment modes");
            else if (badRes) expect_code(C, rc, 0xfffe, "res outside 0..15");
            closure(C, rc, out.p, (size_t)sz, true);
            if (rc == 0)
                for (int64_t i = 0; i < sz; i++)
                    if (out.p[i]) { vm.R[dst] = out.p[i]; break; }
            break;
        }
        case 13: case 14: {  // experimental polyfill
            bool fill = (o % 62) == 14;
            FN(fill ? 14 : 13, fill ? "polygonToCellsExperimental" : "maxPolygonToCellsSizeExperimental");
            Poly P; dec_polygon(vm, P);
            int res = clamp_res(P, vm.dec_res()); uint32_t flags = vm.dec_flags();
            bool badFlags = flags > 3, badRes = res < 0 || res > 15;
            arg_int(C, res, !badRes); arg_int(C, flags, !badFlags);
            add_cls(C, P.gp.geoloop.numVerts == 0 ? 0 : P.gp.geoloop.numVerts < 3 ? 1 : 2); add_cls(C, P.gp.numHoles);
            C.push('i', "nv", 0, P.gp.geoloop.numVerts, 0); C.push('i', "holes", 0, P.gp.numHoles, 0);
            int64_t sz = -1;
            trace_poly(C.name, P, res, flags);
            int rc = maxPolygonToCellsSizeExperimental(&P.gp, res, flags, &sz);
            OBS(rc); if (rc == 0) OBS(sz);
            uint32_t mask = (badFlags ? M(E_OPTION_INVALID) : 0) | (badRes ? M(E_RES_DOMAIN) : 0);
            if (!fill) {
                done(C, rc);
                if (mask) expect_code(C, rc, mask, "invalid flags / res outside 0..15");
                if (rc == 0 && sz < 0) violation(sfmt("maxPolygonToCellsSizeExperimental(%s) -> negative size", C.d().c_str()));
                break;
            }
            if (rc != 0) sz = 0;
            if (sz > CAP_POLY) { stats().skipped_size++; break; }
            uint8_t shortBy = vm.rd.u8();
            int64_t cap = sz;
            if ((shortBy & 7) == 7 && sz > 0) cap = sz - 1 - (shortBy >> 3) % sz;  // a smaller capacity: must never overrun
            if ((shortBy & 7) == 6) {  // a negative capacity with a zero-length buffer: nothing may be written, and cells cannot "fit"
                static const int64_t NEG[4] = {-1, INT64_MIN, -2147483648LL, -4294967297LL};
                int64_t ncap = NEG[(shortBy >> 3) & 3];
                Buf<H3Index> none(0);
                arg_int(C, ncap, false);
                rc = polygonToCellsExperimental(&P.gp, res, flags, ncap, none.p);
                done(C, rc);
                if (mask) expect_code(C, rc, mask, "invalid flags / res outside 0..15");
                break;
            }
            Buf<H3Index> out((size_t)cap);
            rc = polygonToCellsExperimental(&P.gp, res, flags, cap, out.p);
            done(C, rc);
            if (mask) expect_code(C, rc, mask, "invalid flags / res outside 0..15");
            closure(C, rc, out.p, (size_t)cap, true);
            if (rc == 0)
                for (int64_t i = 0; i < cap; i++)
                    if (out.p[i]) { vm.R[dst] = out.p[i]; break; }
            break;
        }
        case 15: {
            FN(15, "cellsToLinkedMultiPolygon");
            std::vector<uint64_t> set; dec_set(vm, set, 14);
            for (uint64_t h : set) arg_cell(C, h);
            Buf<H3Index> in(set.size());
            if (!set.empty()) memcpy(in.p, set.data(), set.size() * 8);
            Buf<LinkedGeoPolygon> out(1, 0xA5, false);  // poison: the head node must be initialised by the callee
            int rc = cellsToLinkedMultiPolygon(in.p, (int)set.size(), out.p);
            done(C, rc);
            if (rc == 0) {
                for (LinkedGeoPolygon *pg = out.p; pg; pg = pg->next) {
                    int nl = 0;
                    for (LinkedGeoLoop *lp = pg->first; lp; lp = lp->next) {
                        nl++;
                        for (LinkedLatLng *ll = lp->first; ll; ll = ll->next) OBS(ll->vertex);
                        OBS(nl);
                    }
                    OBS(nl);
                }
                destroyLinkedMultiPolygon(out.p);
            }
            break;
        }
        case 16: {
            FN(16, "degsToRads/radsToDegs");
            double d = vm.dec_double(2); arg_dbl(C, d);
            double a = degsToRads(d), b = radsToDegs(d);
            OBS(a); OBS(b);
            done(C, 0);
            break;
        }
        case 17: {
            FN(17, "greatCircleDistance*");
            Buf<LatLng> a(1), b(1);
            a.p->lat = vm.dec_double(0); a.p->lng = vm.dec_double(1); b.p->lat = vm.dec_double(0); b.p->lng = vm.dec_double(1);
            arg_dbl(C, a.p->lat); arg_dbl(C, a.p->lng); arg_dbl(C, b.p->lat); arg_dbl(C, b.p->lng);
            double r = greatCircleDistanceRads(a.p, b.p), km = greatCircleDistanceKm(a.p, b.p), m = greatCircleDistanceM(a.p, b.p);
            OBS(r); OBS(km); OBS(m);
            done(C, 0);
            break;
        }
        case 18: case 19: case 20: case 21: case 22: {
            static const char *nm[] = {"getHexagonAreaAvgKm2", "getHexagonAreaAvgM2", "getHexagonEdgeLengthAvgKm", "getHexagonEdgeLengthAvgM", "getNumCells"};
            int w = o % 62 - 18;
            FN(18 + w, nm[w]);
            int res = vm.dec_int(); arg_int(C, res, res >= 0 && res <= 15);
            double d = -1; int64_t n = -1;
            int rc = w == 0 ? getHexagonAreaAvgKm2(res, &d) : w == 1 ? getHexagonAreaAvgM2(res, &d) : w == 2 ? getHexagonEdgeLengthAvgKm(res, &d)
                     : w == 3 ? getHexagonEdgeLengthAvgM(res, &d) : getNumCells(res, &n);
            done(C, rc);
            if (rc == 0) { OBS(d); OBS(n); }
            if (res < 0 || res > 15) expect_code(C, rc, M(E_RES_DOMAIN), "res outside 0..15");
            else {
                if (rc != 0) violation(sfmt("%s(%d) failed with %d", C.name, res, rc));
                if (w == 4 && n != ref::num_cells(res)) violation(sfmt("getNumCells(%d) = %lld", res, (long long)n));
                if (w < 4 && !(d > 0 && std::isfinite(d))) violation(sfmt("%s(%d) = %g", C.name, res, d));
            }
            break;
        }
        case 23: case 24: case 25: {
            static const char *nm[] = {"cellAreaRads2", "cellAreaKm2", "cellAreaM2"};
            int w = o % 62 - 23;
            FN(23 + w, nm[w]);
            uint64_t h = vm.reg(); arg_cell(C, h);
            double d = -1;
            int rc = w == 0 ? cellAreaRads2(h, &d) : w == 1 ? cellAreaKm2(h, &d) : cellAreaM2(h, &d);
            done(C, rc);
            if (rc == 0) OBS(d);
            if (C.all_cells_valid && (rc != 0 || !(d > 0 && std::isfinite(d)))) violation(sfmt("%s(%s) -> rc %d area %g on a valid cell", C.name, C.d().c_str(), rc, d));
            break;
        }
        case 26: case 27: case 28: {
            static const char *nm[] = {"edgeLengthRads", "edgeLengthKm", "edgeLengthM"};
            int w = o % 62 - 26;
            FN(26 + w, nm[w]);
            uint64_t e = vm.reg(); C.push('x', nullptr, e, 0, 0); add_cls(C, isValidDirectedEdge(e) ? 0 : 1);
            double d = -1;
            int rc = w == 0 ? edgeLengthRads(e, &d) : w == 1 ? edgeLengthKm(e, &d) : edgeLengthM(e, &d);
            done(C, rc);
            if (rc == 0) OBS(d);
            if (ref::valid_edge(e) && (rc != 0 || !(d > 0 && std::isfinite(d)))) violation(sfmt("%s(%s) -> rc %d length %g on a valid edge", C.name, C.d().c_str(), rc, d));
            break;
        }
        case 29: {
            FN(29, "getRes0Cells");
            if (res0CellCount() != 122) violation("res0CellCount() != 122");
            Buf<H3Index> out(122);
            int rc = getRes0Cells(out.p);
            done(C, rc);
            if (rc != 0) violation("getRes0Cells failed");
            closure(C, rc, out.p, 122, false);
            vm.R[dst] = out.p[vm.rd.u8() % 122];
            break;
        }
        case 30: {
            FN(30, "getPentagons");
            int res = vm.dec_res(); arg_int(C, res, res >= 0 && res <= 15);
            if (pentagonCount() != 12) violation("pentagonCount() != 12");
            Buf<H3Index> out(12);
            int rc = getPentagons(res, out.p);
            done(C, rc);
            if (res < 0 || res > 15) expect_code(C, rc, M(E_RES_DOMAIN), "res outside 0..15");
            else {
                if (rc != 0) violation(sfmt("getPentagons(%d) failed with %d", res, rc));
                closure(C, rc, out.p, 12, false);
                vm.R[dst] = out.p[vm.rd.u8() % 12];
            }
            break;
        }
        case 31: {
            FN(31, "inspection");
            uint64_t h = vm.reg(); arg_cell(C, h);
            int r = getResolution(h), b = getBaseCellNumber(h), v = isValidCell(h), c3 = isResClassIII(h), p = isPentagon(h);
            int ve = isValidDirectedEdge(h), vv = isValidVertex(h);
            done(C, 0);
            OBS(r); OBS(b); OBS(v); OBS(c3); OBS(p); OBS(ve); OBS(vv);
            if (r != ref::res_of(h) || b != (int)((h >> 45) & 127) || c3 != (r & 1)) violation(sfmt("getResolution/getBaseCellNumber/isResClassIII(%s) = %d/%d/%d", C.d().c_str(), r, b, c3));
            if ((v != 0) != ref::valid_cell(h)) violation(sfmt("isValidCell(%s) = %d disagrees with the documented layout", C.d().c_str(), v));
            if (v && (p != 0) != ref::is_pentagon(h)) violation(sfmt("isPentagon(%s) = %d", C.d().c_str(), p));
            if ((ve != 0) != ref::valid_edge(h)) violation(sfmt("isValidDirectedEdge(%s) = %d disagrees with the documented form", C.d().c_str(), ve));
            if (vv && ((h >> 59) & 15) != 4) violation(sfmt("isValidVertex(%s) accepts a non-vertex mode", C.d().c_str()));
            break;
        }
        case 32: {
            FN(32, "stringToH3");
            int n = vm.rd.u8() % 24;
            Buf<char> s((size_t)n + 1);
            uint8_t m = vm.rd.u8();
            for (int i = 0; i < n; i++) {
                uint8_t c = vm.rd.u8();
                s.p[i] = (m & 1) ? "0123456789abcdefABCDEF"[c % 22] : (char)(c ? c : 'x');
            }
            s.p[n] = 0;
            C.push('i', "len", 0, n, 0); add_cls(C, n == 0 ? 0 : (m & 1) ? 1 : 2);
            H3Index out = 0;
            int rc = stringToH3(s.p, &out);
            done(C, rc);
            if (rc == 0) OBS(out);
            if (n == 0 && rc == 0) violation("stringToH3(\"\") succeeded");
            if (rc == 0) vm.R[dst] = out;
            break;
        }
        case 33: {
            FN(33, "h3ToString");
            uint64_t h = vm.reg(); size_t sz = vm.rd.u8() % 33;
            C.push('x', nullptr, h, 0, 0); C.push('i', "sz", 0, (long long)sz, 0); add_cls(C, sz >= 17 ? 0 : 1);
            Buf<char> s(sz, 0x5a);
            int rc = h3ToString(h, s.p, sz);
            done(C, rc);
            if (sz < 17) expect_code(C, rc, M(E_MEMORY_BOUNDS), "buffer smaller than 17 bytes");
            else {
                if (rc != 0) violation(sfmt("h3ToString(%s) failed with %d", C.d().c_str(), rc));
                H3Index back = 0;
                if (stringToH3(s.p, &back) != 0 || back != h) violation(sfmt("h3ToString/stringToH3 round trip failed for %s", C.d().c_str()));
            }
            break;
        }
        case 34: {
            FN(34, "cellToParent");
            uint64_t h = vm.reg(); int pr = vm.dec_res();
            arg_cell(C, h); arg_int(C, pr, pr >= 0 && pr <= ref::res_of(h));
            H3Index out = 0;
            int rc = cellToParent(h, pr, &out);
            done(C, rc);
            if (rc == 0) OBS(out);
            if (pr < 0 || pr > 15) expect_code(C, rc, M(E_RES_DOMAIN), "parentRes outside 0..15");
            else if (pr > ref::res_of(h)) expect_code(C, rc, M(E_RES_MISMATCH), "parentRes finer than the cell");
            else {
                if (rc != 0) violation(sfmt("cellToParent(%s) failed with %d", C.d().c_str(), rc));
                closure(C, rc, &out, 1, false);
                vm.R[dst] = out;
            }
            break;
        }
        case 35: case 36: {
            bool cc = (o % 62) == 36;
            FN(cc ? 36 : 35, cc ? "cellToCenterChild" : "cellToChildrenSize");
            uint64_t h = vm.reg(); int cr = vm.dec_res();
            bool ok = cr >= ref::res_of(h) && cr <= 15;
            arg_cell(C, h); arg_int(C, cr, ok);
            int64_t n = -1; H3Index out = 0;
            int rc = cc ? cellToCenterChild(h, cr, &out) : cellToChildrenSize(h, cr, &n);
            done(C, rc);
            if (rc == 0) { OBS(n); OBS(out); }
            if (!ok) expect_code(C, rc, M(E_RES_DOMAIN), "childRes coarser than the cell or outside 0..15");
            else {
                if (rc != 0) violation(sfmt("%s(%s) failed with %d", C.name, C.d().c_str(), rc));
                if (cc) { closure(C, rc, &out, 1, false); vm.R[dst] = out; }
                else if (C.all_cells_valid && n != ref::children_count(h, cr)) violation(sfmt("cellToChildrenSize(%s) = %lld, documented %lld", C.d().c_str(), (long long)n, (long long)ref::children_count(h, cr)));
            }
            break;
        }
        case 37: {
            FN(37, "cellToChildren");
            uint64_t h = vm.reg(); int cr = vm.dec_res();
            arg_cell(C, h); arg_int(C, cr, cr >= ref::res_of(h) && cr <= 15);
            int64_t n = 0;
            if (cellToChildrenSize(h, cr, &n) != 0) break;  // no documented size: the call is outside the premise
            if (n > CAP_CHILDREN) { stats().skipped_size++; break; }
            Buf<H3Index> out((size_t)n);
            int rc = cellToChildren(h, cr, out.p);
            done(C, rc);
            closure(C, rc, out.p, (size_t)n, false);
            if (rc == 0 && n > 0) vm.R[dst] = out.p[vm.rd.u16() % n];
            break;
        }
        case 38: {
            FN(38, "cellToChildPos");
            uint64_t h = vm.reg(); int pr = vm.dec_res();
            arg_cell(C, h); arg_int(C, pr, pr >= 0 && pr <= ref::res_of(h));
            int64_t pos = -1;
            int rc = cellToChildPos(h, pr, &pos);
            done(C, rc);
            if (rc == 0) OBS(pos);
            if (pr < 0 || pr > 15) expect_code(C, rc, M(E_RES_DOMAIN), "parentRes outside 0..15");
            else if (pr > ref::res_of(h)) expect_code(C, rc, M(E_RES_MISMATCH), "parentRes finer than the cell");
            else if (C.all_cells_valid) {
                if (rc != 0 || pos != ref::child_pos(h, pr)) violation(sfmt("cellToChildPos(%s) -> rc %d pos %lld, documented %lld", C.d().c_str(), rc, (long long)pos, (long long)ref::child_pos(h, pr)));
            }
            break;
        }
        case 39: {
            FN(39, "childPosToCell");
            uint64_t p = vm.reg(); int cr = vm.dec_res();
            int pres = ref::res_of(p);
            long long n = (long long)cr - pres;
            int64_t hexc = (n >= 0 && n <= 15) ? ref::ipow7((int)n) : 0;
            int64_t cnt = (n >= 0 && n <= 15 && cr <= 15 && ref::valid_cell(p)) ? ref::children_count(p, cr) : hexc;
            uint8_t m = vm.rd.u8();
            int64_t pos;
            switch (m % 12) {
                case 0: pos = -1; break;
                case 1: pos = 0; break;
                case 2: pos = cnt - 1; break;
                case 3: pos = cnt; break;
                case 4: pos = cnt + 1; break;
                case 5: pos = hexc - 1; break;
                case 6: pos = hexc; break;
                case 7: pos = (m & 16) ? INT64_MAX : INT64_MIN; break;
                case 8: pos = (int64_t)vm.rd.u64(); break;
                case 9: pos = cnt > 0 ? (int64_t)(vm.rd.u64() % (uint64_t)cnt) : 0; break;
                case 10: pos = cnt + (int64_t)(vm.rd.u32() % (uint64_t)(hexc - cnt + 1)); break;  // the window between the pentagon and the hexagon count
                default: pos = vm.rd.u8(); break;
            }
            bool badRes = cr < 0 || cr > 15, mism = !badRes && cr < pres;
            bool badPos = !badRes && !mism && (pos < 0 || pos >= cnt);
            arg_cell(C, p); arg_int(C, cr, !badRes && !mism); arg_int(C, pos, !badPos);
            H3Index out = 0;
            int rc = childPosToCell(pos, p, cr, &out);
            done(C, rc);
            if (rc == 0) OBS(out);
            if (badRes) expect_code(C, rc, M(E_RES_DOMAIN), "childRes outside 0..15");
            else if (mism) expect_code(C, rc, M(E_RES_MISMATCH), "childRes coarser than the parent");
            else if (badPos && (C.all_cells_valid || pos < 0 || pos >= hexc)) expect_code(C, rc, M(E_DOMAIN), "childPos outside 0..cellToChildrenSize-1");
            else if (C.all_cells_valid) {
                if (rc != 0 || out != ref::child_at(p, cr, pos)) violation(sfmt("childPosToCell(%s) -> rc %d cell %016llx, documented %016llx", C.d().c_str(), rc, (unsigned long long)out, (unsigned long long)ref::child_at(p, cr, pos)));
                vm.R[dst] = out;
            }
            break;
        }
        case 40: {
            FN(40, "compactCells");
            std::vector<uint64_t> set; dec_set(vm, set, 24);
            for (uint64_t h : set) arg_cell(C, h);
            Buf<H3Index> in(set.size()), out(set.size());
            if (!set.empty()) memcpy(in.p, set.data(), set.size() * 8);
            int rc = compactCells(in.p, out.p, (int64_t)set.size());
            done(C, rc);
            closure(C, rc, out.p, set.size(), true);
            if (rc == 0)
                for (size_t i = 0; i < set.size(); i++)
                    if (out.p[i]) { vm.R[dst] = out.p[i]; break; }
            break;
        }
        case 41: {
            FN(41, "uncompactCells");
            std::vector<uint64_t> set; dec_set(vm, set, 8);
            int res = vm.dec_res();
            bool coarser = false, anyNull = false, anyNonNull = false;
            for (uint64_t h : set) { arg_cell(C, h); if (h == 0) anyNull = true; else { anyNonNull = true; if (ref::res_of(h) > res) coarser = true; } }
            arg_int(C, res, res >= 0 && res <= 15 && !coarser);
            Buf<H3Index> in(set.size());
            if (!set.empty()) memcpy(in.p, set.data(), set.size() * 8);
            int64_t n = -1;
            int rc = uncompactCellsSize(in.p, (int64_t)set.size(), res, &n);
            if (rc == 0) OBS(n);
            { Call C2 = C; C2.fn = 42; C2.name = "uncompactCellsSize"; stats().fn_name[42] = C2.name; done(C2, rc);
              if (coarser || ((res < 0 || res > 15) && anyNonNull))
                  expect_code(C2, rc, M(E_RES_MISMATCH) | M(E_RES_DOMAIN), "target resolution coarser than an input cell / outside 0..15"); }
            if (rc != 0) break;
            if (n > CAP_UNCOMPACT) { stats().skipped_size++; break; }
            uint8_t shortBy = vm.rd.u8();
            int64_t cap = n;
            if ((shortBy & 3) == 3 && n > 0) cap = n - 1 - (shortBy >> 2) % n;
            if ((shortBy & 3) == 2 && n > 0) {  // a negative capacity with a zero-length buffer
                static const int64_t NEG[4] = {-1, INT64_MIN, -2147483648LL, -4294967297LL};
                int64_t ncap = NEG[(shortBy >> 2) & 3];
                Buf<H3Index> none(0);
                rc = uncompactCells(in.p, (int64_t)set.size(), none.p, ncap, res);
                done(C, rc);
                if (C.all_cells_valid && !anyNull) expect_code(C, rc, M(E_MEMORY_BOUNDS), "negative capacity");
                break;
            }
            Buf<H3Index> out((size_t)cap);
            rc = uncompactCells(in.p, (int64_t)set.size(), out.p, cap, res);
            done(C, rc);
            if (C.all_cells_valid && !anyNull) {
                if (cap < n) expect_code(C, rc, M(E_MEMORY_BOUNDS), "capacity smaller than uncompactCellsSize");
                else if (rc != 0) violation(sfmt("uncompactCells(%s) failed with %d at the announced size", C.d().c_str(), rc));
                if (cap == n) closure(C, rc, out.p, (size_t)cap, false);
            }
            if (rc == 0 && cap > 0) vm.R[dst] = out.p[vm.rd.u16() % cap];
            break;
        }
        case 43: {
            FN(43, "getIcosahedronFaces");
            uint64_t h = vm.reg(); arg_cell(C, h);
            int mf = -1;
            int rc = maxFaceCount(h, &mf);
            OBS(rc); if (rc == 0) OBS(mf);
            if (rc != 0 || mf < 0 || mf > 5) { Call C2 = C; C2.fn = 44; C2.name = "maxFaceCount"; stats().fn_name[44] = C2.name; done(C2, rc); if (rc == 0) violation(sfmt("maxFaceCount(%s) = %d", C.d().c_str(), mf)); break; }
            Buf<int> out((size_t)mf, 0x7f);
            rc = getIcosahedronFaces(h, out.p);
            done(C, rc);
            if (C.all_cells_valid && rc != 0) violation(sfmt("getIcosahedronFaces(%s) failed with %d on a valid cell", C.d().c_str(), rc));
            if (rc == 0 && C.all_cells_valid)
                for (int i = 0; i < mf; i++)
                    if (out.p[i] < -1 || out.p[i] > 19) violation(sfmt("getIcosahedronFaces(%s) slot %d = %d", C.d().c_str(), i, out.p[i]));
            break;
        }
        case 45: {
            FN(45, "areNeighborCells");
            uint64_t a = vm.reg(), b = vm.reg(); arg_cell(C, a); arg_cell(C, b);
            int out = -1;
            int rc = areNeighborCells(a, b, &out);
            done(C, rc);
            if (C.all_cells_valid && ref::res_of(a) != ref::res_of(b)) expect_code(C, rc, M(E_RES_MISMATCH), "cells of different resolutions");
            if (rc == 0) OBS(out);
            if (rc == 0 && out != 0 && out != 1) violation(sfmt("areNeighborCells(%s) out=%d", C.d().c_str(), out));
            break;
        }
        case 46: {
            FN(46, "cellsToDirectedEdge");
            uint64_t a = vm.reg(), b = vm.reg(); arg_cell(C, a); arg_cell(C, b);
            H3Index e = 0;
            int rc = cellsToDirectedEdge(a, b, &e);
            done(C, rc);
            if (rc == 0) OBS(e);
            if (rc == 0 && C.all_cells_valid && !ref::valid_edge(e)) violation(sfmt("cellsToDirectedEdge(%s) -> %016llx is not a valid edge", C.d().c_str(), (unsigned long long)e));
            if (rc == 0) vm.R[dst] = e;
            break;
        }
        case 47: case 48: case 49: {
            static const char *nm[] = {"getDirectedEdgeOrigin", "getDirectedEdgeDestination", "directedEdgeToCells"};
            int w = o % 62 - 47;
            FN(47 + w, nm[w]);
            uint64_t e = vm.reg(); C.push('x', nullptr, e, 0, 0);
            bool ve = ref::valid_edge(e); add_cls(C, ve ? 0 : 1);
            Buf<H3Index> out(w == 2 ? 2 : 1);
            int rc = w == 0 ? getDirectedEdgeOrigin(e, out.p) : w == 1 ? getDirectedEdgeDestination(e, out.p) : directedEdgeToCells(e, out.p);
            done(C, rc);
            if (ve) {
                if (rc != 0) violation(sfmt("%s(%s) failed with %d on a valid edge", C.name, C.d().c_str(), rc));
                for (size_t i = 0; i < out.n; i++) if (!ref::valid_cell(out.p[i])) violation(sfmt("%s(%s) -> invalid cell %016llx", C.name, C.d().c_str(), (unsigned long long)out.p[i]));
            }
            if (rc == 0) vm.R[dst] = out.p[out.n - 1];
            break;
        }
        case 50: {
            FN(50, "originToDirectedEdges");
            uint64_t h = vm.reg(); arg_cell(C, h);
            Buf<H3Index> out(6, 0x5b);  // poison: every slot must be written (null slot of a pentagon included)
            int rc = originToDirectedEdges(h, out.p);
            done(C, rc);
            if (C.all_cells_valid) {
                if (rc != 0) violation(sfmt("originToDirectedEdges(%s) failed with %d", C.d().c_str(), rc));
                for (int i = 0; i < 6; i++) if (out.p[i] && !ref::valid_edge(out.p[i])) violation(sfmt("originToDirectedEdges(%s) slot %d = %016llx", C.d().c_str(), i, (unsigned long long)out.p[i]));
            }
            if (rc == 0) vm.R[dst] = out.p[1 + vm.rd.u8() % 5];
            break;
        }
        case 51: {
            FN(51, "directedEdgeToBoundary");
            uint64_t e = vm.reg(); C.push('x', nullptr, e, 0, 0);
            bool ve = ref::valid_edge(e); add_cls(C, ve ? 0 : 1);
            Buf<CellBoundary> b(1, 0xA5);
            int rc = directedEdgeToBoundary(e, b.p);
            done(C, rc);
            if (ve && (rc != 0 || b.p->numVerts < 2 || b.p->numVerts > 3)) violation(sfmt("directedEdgeToBoundary(%s) -> rc %d numVerts %d", C.d().c_str(), rc, b.p->numVerts));
            break;
        }
        case 52: {
            FN(52, "cellToVertex");
            uint64_t h = vm.reg(); int vn = vm.dec_int();
            int nv = (ref::valid_cell(h) && ref::is_pentagon(h)) ? 5 : 6;
            arg_cell(C, h); arg_int(C, vn, vn >= 0 && vn < nv);
            H3Index v = 0;
            int rc = cellToVertex(h, vn, &v);
            done(C, rc);
            if (rc == 0) OBS(v);
            if (vn < 0 || vn > 5 || (C.all_cells_valid && vn >= nv)) expect_code(C, rc, M(E_DOMAIN), "vertex number outside the cell's range");
            else if (C.all_cells_valid) {
                if (rc != 0 || !isValidVertex(v)) violation(sfmt("cellToVertex(%s) -> rc %d vertex %016llx (isValidVertex=%d)", C.d().c_str(), rc, (unsigned long long)v, isValidVertex(v)));
            }
            if (rc == 0) vm.R[dst] = v;
            break;
        }
        case 53: {
            FN(53, "cellToVertexes");
            uint64_t h = vm.reg(); arg_cell(C, h);
            Buf<H3Index> out(6, 0x5b);
            int rc = cellToVertexes(h, out.p);
            done(C, rc);
            if (C.all_cells_valid && rc != 0) violation(sfmt("cellToVertexes(%s) failed with %d", C.d().c_str(), rc));
            if (C.all_cells_valid && rc == 0)
                for (int i = 0; i < 6; i++)
                    if (out.p[i] && !isValidVertex(out.p[i])) violation(sfmt("cellToVertexes(%s) slot %d = %016llx is neither null nor a valid vertex", C.d().c_str(), i, (unsigned long long)out.p[i]));
            if (rc == 0) vm.R[dst] = out.p[vm.rd.u8() % 6];
            break;
        }
        case 54: {
            FN(54, "vertexToLatLng");
            uint64_t v = vm.reg(); C.push('x', nullptr, v, 0, 0);
            int vv = isValidVertex(v); add_cls(C, vv ? 0 : 1);
            Buf<LatLng> g(1);
            g.p->lat = g.p->lng = 1e99;
            int rc = vertexToLatLng(v, g.p);
            done(C, rc);
            if (vv && (rc != 0 || !(fabs(g.p->lat) <= M_PI_2 + 1e-9 && fabs(g.p->lng) <= M_PI + 1e-9))) violation(sfmt("vertexToLatLng(%s) -> rc %d (%g,%g) on a valid vertex", C.d().c_str(), rc, g.p->lat, g.p->lng));
            break;
        }
        case 55: {
            FN(55, "gridDistance");
            uint64_t a = vm.reg(), b = vm.reg(); arg_cell(C, a); arg_cell(C, b);
            int64_t d = -1;
            int rc = gridDistance(a, b, &d);
            done(C, rc);
            if (rc == 0) OBS(d);
            if (C.all_cells_valid && ref::res_of(a) != ref::res_of(b)) expect_code(C, rc, M(E_RES_MISMATCH), "cells of different resolutions");
            if (rc == 0 && d < 0) violation(sfmt("gridDistance(%s) = %lld", C.d().c_str(), (long long)d));
            break;
        }
        case 56: {
            FN(56, "gridPathCells");
            uint64_t a = vm.reg(), b = vm.reg(); arg_cell(C, a); arg_cell(C, b);
            int64_t n = -1;
            int rc = gridPathCellsSize(a, b, &n);
            if (rc == 0) OBS(n);
            { Call C2 = C; C2.fn = 57; C2.name = "gridPathCellsSize"; stats().fn_name[57] = C2.name; done(C2, rc);
              if (C.all_cells_valid && ref::res_of(a) != ref::res_of(b)) expect_code(C2, rc, M(E_RES_MISMATCH), "cells of different resolutions"); }
            if (rc != 0) break;
            if (n < 1) violation(sfmt("gridPathCellsSize(%s) = %lld", C.d().c_str(), (long long)n));
            if (n > CAP_PATH) { stats().skipped_size++; break; }
            Buf<H3Index> out((size_t)n);
            rc = gridPathCells(a, b, out.p);
            done(C, rc);
            closure(C, rc, out.p, (size_t)n, false);
            if (rc == 0) vm.R[dst] = out.p[vm.rd.u16() % n];
            break;
        }
        case 58: {
            FN(58, "cellToLocalIj");
            uint64_t a = vm.reg(), b = vm.reg(); uint32_t mode = (vm.rd.u8() & 3) ? 0 : vm.rd.u32();
            arg_cell(C, a); arg_cell(C, b); arg_int(C, mode, mode == 0);
            Buf<CoordIJ> ij(1);
            int rc = cellToLocalIj(a, b, mode, ij.p);
            done(C, rc);
            if (mode != 0) expect_code(C, rc, M(E_OPTION_INVALID), "mode != 0");
            else if (C.all_cells_valid && ref::res_of(a) != ref::res_of(b)) expect_code(C, rc, M(E_RES_MISMATCH), "cells of different resolutions");
            break;
        }
        case 59: {
            FN(59, "localIjToCell");
            uint64_t a = vm.reg(); uint32_t mode = (vm.rd.u8() & 3) ? 0 : vm.rd.u32();
            Buf<CoordIJ> ij(1);
            ij.p->i = vm.dec_int(); ij.p->j = vm.dec_int();
            arg_cell(C, a); arg_int(C, mode, mode == 0); C.push('i', "i", 0, ij.p->i, 0); C.push('i', "j", 0, ij.p->j, 0);
            H3Index out = 0;
            int rc = localIjToCell(a, ij.p, mode, &out);
            done(C, rc);
            if (rc == 0) OBS(out);
            if (mode != 0) expect_code(C, rc, M(E_OPTION_INVALID), "mode != 0");
            closure(C, rc, &out, 1, false);
            if (rc == 0 && C.all_cells_valid && ref::res_of(out) != ref::res_of(a)) violation(sfmt("localIjToCell(%s) -> cell of another resolution %016llx", C.d().c_str(), (unsigned long long)out));
            if (rc == 0) vm.R[dst] = out;
            break;
        }
        case 60: {
            FN(60, "describeH3Error");
            int e = vm.dec_int(); arg_int(C, e, e >= 0 && e <= 15);
            const char *s = describeH3Error((H3Error)e);
            if (!s) violation(sfmt("describeH3Error(%d) returned NULL", e));
            size_t len = strlen(s);
            obs_bytes(s, len);
            if (len == 0 || len > 200) violation(sfmt("describeH3Error(%d) returned an implausible string", e));
            done(C, 0);
            break;
        }
        default: {  // register shuffle: derive a neighbour-ish index without calling the library
            vm.R[dst] = vm.dec_index();
            break;
        }
    }
}


// executes one program; returns the digest of everything it observed
inline uint64_t run_program(const uint8_t *data, size_t size) {
    g_obs = 1469598103934665603ULL;
    // ambient thread state a caller may arrive with: errno left over from unrelated calls (bits 6-7 of the first byte choose it)
    { static const int E[4] = {0, ERANGE, EINVAL, EDOM}; errno = E[size ? (data[0] >> 6) & 3 : 0]; }
    // the library has no global state to reset (that is property C18); the VM state is local
    VM vm(data, size);
    stats().execs++;
    bool sample = stats().samples.size() < 24 && (stats().execs % 997 == 1 || stats().execs < 4);
    bool saved = g_trace;
    if (sample) g_trace = true;
    g_tracebuf.clear();
    g_prog_hash = 1469598103934665603ULL;
    g_prog_nontrivial = false;
    for (int i = 0; i < 8; i++) vm.R[i] = 0;
    for (int i = 0; i < 8; i++) vm.R[i] = vm.dec_index();
    int ncalls = 0;
    while (!vm.rd.empty() && ncalls < 12) {
        struct timespec t0, t1;
        uint8_t opc = vm.rd.i < vm.rd.n ? vm.rd.p[vm.rd.i] % 62 : 63;
        clock_gettime(CLOCK_MONOTONIC, &t0);
        op(vm);
        clock_gettime(CLOCK_MONOTONIC, &t1);
        stats().ns_by_op[opc] += (uint64_t)((t1.tv_sec - t0.tv_sec) * 1000000000LL + (t1.tv_nsec - t0.tv_nsec));
        ncalls++;
    }
    if (g_prog_nontrivial) {
        stats().nontrivial_programs++;
        if (stats().traces.size() < 4000000) stats().traces.insert(g_prog_hash);
    }
    if (sample && !g_tracebuf.empty()) stats().samples.push_back(g_tracebuf.substr(0, 900));
    if (g_trace && !sample) fprintf(stderr, "TRACE %s\n", g_tracebuf.c_str());
    g_trace = saved;
    return g_obs;
}

// ---------------------------------------------------------------- structured enumeration (no fuzzer involved)
// Every (function, register construction, argument near-miss mode) combination with `payloads` generated payloads each: 62 x 16 x 7
// programs per payload. All eight registers are built with the same construction (register 1 alternately as a true neighbour of
// register 0, so that two-cell functions see adjacent pairs), the first call is the chosen function with the chosen near-miss
// selector for its first register argument, the remaining bytes decode into further calls. Programs are plain byte strings:
// `on_program` sees the bytes before they run (so that a crash can be attributed), failures are reported like any other.
inline uint64_t enum_mix(uint64_t &st) {
    uint64_t z = (st += 0x9E3779B97F4A7C15ULL);
    z = (z ^ (z >> 30)) * 0xBF58476D1CE4E5B9ULL;
    z = (z ^ (z >> 27)) * 0x94D049BB133111EBULL;
    return z ^ (z >> 31);
}
inline uint64_t enumerate_programs(int shard, int nshards, uint64_t seed, int payloads, void (*on_program)(const uint8_t *, size_t)) {
    static const int MODES[7] = {0, 26, 27, 28, 29, 30, 31};
    uint64_t idx = 0, ran = 0;
    uint8_t buf[160];
    for (int f = 0; f < 62; f++)
        for (int kind = 0; kind < 16; kind++)
            for (int mi = 0; mi < 7; mi++)
                for (int j = 0; j < payloads; j++) {
                    if ((int)(idx++ % (uint64_t)nshards) != shard) continue;
                    uint64_t st = seed * 0x2545F4914F6CDD1DULL + idx;
                    size_t n = 0;
                    for (int r = 0; r < 8; r++) {
                        buf[n++] = (uint8_t)((r == 1 && (j & 1)) ? 14 : kind);
                        uint64_t x = enum_mix(st);
                        if (r == 1 && (j & 1)) x &= ~7ULL;                                 // neighbour of register 0
                        else if (j & 2) x = (x & ~15ULL) | (enum_mix(st) % 6);             // coarse resolutions half of the time
                        for (int b = 0; b < 8; b++) buf[n++] = (uint8_t)(x >> (8 * b));
                        uint64_t e = enum_mix(st);
                        buf[n++] = (uint8_t)e;
                        buf[n++] = (uint8_t)(e >> 8);
                    }
                    uint64_t t = enum_mix(st);
                    buf[n++] = (uint8_t)f;
                    buf[n++] = (uint8_t)t;                                    // destination register
                    buf[n++] = (uint8_t)((MODES[mi] << 3) | ((t >> 8) & 1));  // first register argument: register 0 or 1, near-miss mode
                    buf[n++] = (uint8_t)(t >> 16);
                    buf[n++] = (uint8_t)(((t >> 24) & 1) ^ 1);                // a second register argument, if any: the other one of 0 / 1
                    for (int b = 0; b < 40; b++) { if ((b & 7) == 0) t = enum_mix(st); buf[n++] = (uint8_t)(t >> (8 * (b & 7))); }
                    if (on_program) on_program(buf, n);
                    run_program(buf, n);
                    ran++;
                }
    return ran;
}

inline void init_from_env() {
    if (const char *t = getenv("VERIF_TRACE")) { g_trace = atoi(t) != 0; g_trace_level = atoi(t); }
    if (const char *f = getenv("VERIF_FRAG")) stats().frag = f;
    if (const char *k = getenv("VERIF_KNOWN")) {
        std::string v = k;
        size_t p = 0;
        while (p <= v.size()) {
            size_t q = v.find(',', p);
            if (q == std::string::npos) q = v.size();
            if (q > p) { g_known.push_back(v.substr(p, q - p)); g_known_hits.push_back(0); }
            p = q + 1;
        }
    }
    if (const char *msg = ref::selftest()) {
        fprintf(stderr, "reference model self-test failed: %s\n", msg);
        abort();
    }
}

}  // namespace apivm
