// topo.hpp — neighbour relation derived from GEOMETRY (not from the traversal tables), reference BFS,
// shared-boundary matching. Used by C05, C08, C09, C10, C11, C14, C16 (DESIGN.md §4 C05).
#pragma once
#include <unordered_map>
#include <unordered_set>
#include <deque>
#include "gen.hpp"
#include "geoq.hpp"

namespace topo {

struct LV { long double x, y, z; };
inline LV lv(LatLng g) { long double c = cosl(g.lat); return {c * cosl(g.lng), c * sinl(g.lng), sinl(g.lat)}; }
inline LatLng ll(LV v) { long double n = sqrtl(v.x * v.x + v.y * v.y + v.z * v.z); return {(double)asinl(v.z / n), (double)atan2l(v.y, v.x)}; }
inline long double lang(LV a, LV b) {
    long double cx = a.y * b.z - a.z * b.y, cy = a.z * b.x - a.x * b.z, cz = a.x * b.y - a.y * b.x;
    return atan2l(sqrtl(cx * cx + cy * cy + cz * cz), a.x * b.x + a.y * b.y + a.z * b.z);
}

// Geometric neighbours of a: for every boundary segment, the cell containing the point just outside its midpoint.
// Uses latLngToCell/cellToBoundary/cellToLatLng only (face lookup path), not the neighbour traversal tables.
// Returns false if the cell is "unprobeable" (push distance cannot be both >= 16x the location tolerance and
// <= 0.25 of the centre-edge distance: only cells within a few dozen cell widths of a pole at res >= 14).
inline bool geoNeighbors(H3Index a, std::vector<H3Index> &out) {
    out.clear();
    CellBoundary cb;
    LatLng cc;
    if (cellToBoundary(a, &cb) || cellToLatLng(a, &cc)) return false;
    int res = getResolution(a);
    LV c = lv(cc);
    for (int i = 0; i < cb.numVerts; i++) {
        LV p = lv(cb.verts[i]), q = lv(cb.verts[(i + 1) % cb.numVerts]);
        LV m = {p.x + q.x, p.y + q.y, p.z + q.z};
        long double n = sqrtl(m.x * m.x + m.y * m.y + m.z * m.z);
        m = {m.x / n, m.y / n, m.z / n};
        long double dce = lang(c, m);
        long double seg = lang(p, q);
        if (seg < dce * 1e-6L) continue;  // degenerate segment (coincident vertices)
        LatLng mg = ll(m);
        long double tol = fmaxl(2e-12L, 4e-15L / cosl(mg.lat));
        long double push = dce * 1e-3L;
        if (push < 16 * tol) push = 16 * tol;
        if (push > 0.25L * dce) return false;
        long double f = push / dce;
        LV o = {m.x + (m.x - c.x) * f, m.y + (m.y - c.y) * f, m.z + (m.z - c.z) * f};
        LatLng og = ll(o);
        H3Index h = 0;
        if (latLngToCell(&og, res, &h) || h == 0) return false;
        if (h == a) return false;  // should not happen; treated as unprobeable (caller counts it)
        if (std::find(out.begin(), out.end(), h) == out.end()) out.push_back(h);
    }
    return true;
}

struct NeighborCache {
    std::unordered_map<H3Index, std::vector<H3Index>> m;
    std::unordered_set<H3Index> bad;  // cells found unprobeable (the flag must be re-raised on every cache hit)
    bool unprobeable = false;         // reset by the caller at the start of a case
    const std::vector<H3Index> &get(H3Index a) {
        auto it = m.find(a);
        if (it != m.end()) {
            if (bad.count(a)) unprobeable = true;
            return it->second;
        }
        std::vector<H3Index> v;
        if (!geoNeighbors(a, v)) {
            unprobeable = true;
            bad.insert(a);
            v.clear();
        }
        return m.emplace(a, std::move(v)).first->second;
    }
    void clear() { m.clear(); bad.clear(); }
};

// reference BFS over the geometric neighbour graph to depth k: cell -> distance
inline std::unordered_map<H3Index, int> bfs(NeighborCache &nc, H3Index origin, int k) {
    std::unordered_map<H3Index, int> dist;
    std::deque<H3Index> q;
    dist[origin] = 0;
    q.push_back(origin);
    while (!q.empty()) {
        H3Index u = q.front();
        q.pop_front();
        int d = dist[u];
        if (d >= k) continue;
        for (H3Index v : nc.get(u))
            if (!dist.count(v)) {
                dist[v] = d + 1;
                q.push_back(v);
            }
    }
    return dist;
}

inline std::vector<gq::V> boundaryQ(H3Index h, CellBoundary *keep = nullptr) {
    CellBoundary cb;
    std::vector<gq::V> v;
    if (cellToBoundary(h, &cb)) return v;
    for (int i = 0; i < cb.numVerts; i++) v.push_back(gq::fromLL(cb.verts[i].lat, cb.verts[i].lng));
    if (keep) *keep = cb;
    return v;
}
inline gq::V centreQ(H3Index h) {
    LatLng g = {0, 0};
    cellToLatLng(h, &g);
    return gq::fromLL(g.lat, g.lng);
}

// Shared boundary stretch of a and b: indexes (in a's boundary order) of the vertices of a that coincide
// (within `near` rad) with a vertex of b, the matching indexes in b, and the worst coincidence distance.
struct SharedRun {
    std::vector<int> ia, ib;  // ia in cyclic order along a's boundary
    gq::Q worst = 0;
    bool consecutive = false;  // ia consecutive (cyclically) in a AND ib consecutive in reverse order in b
};
inline SharedRun sharedRun(const std::vector<gq::V> &A, const std::vector<gq::V> &B, gq::Q near) {
    SharedRun r;
    int na = (int)A.size(), nb = (int)B.size();
    std::vector<int> match(na, -1);
    int cnt = 0;
    for (int i = 0; i < na; i++) {
        gq::Q best = near;
        for (int j = 0; j < nb; j++) {
            gq::Q d = gq::angle(A[i], B[j]);
            if (d < best) { best = d; match[i] = j; }
        }
        if (match[i] >= 0) { cnt++; if (best > r.worst) r.worst = best; }
    }
    if (cnt == 0) return r;
    // start of the run: a matched vertex whose predecessor is unmatched
    int start = -1;
    for (int i = 0; i < na; i++) if (match[i] >= 0 && match[(i + na - 1) % na] < 0) { start = i; break; }
    if (start < 0) start = 0;  // every vertex matched (cannot happen for distinct cells)
    bool cons = true;
    for (int t = 0; t < cnt; t++) {
        int i = (start + t) % na;
        if (match[i] < 0) { cons = false; break; }
        r.ia.push_back(i);
        r.ib.push_back(match[i]);
    }
    if (!cons) {  // collect all matches anyway
        r.ia.clear(); r.ib.clear();
        for (int i = 0; i < na; i++) if (match[i] >= 0) { r.ia.push_back(i); r.ib.push_back(match[i]); }
    } else {
        for (size_t t = 0; t + 1 < r.ib.size(); t++)
            if (r.ib[t + 1] != (r.ib[t] + nb - 1) % nb) cons = false;  // reverse order in b
    }
    r.consecutive = cons;
    return r;
}

}  // namespace topo
