// harness.hpp — shared runtime of every property harness (see DESIGN.md §2.2–2.4)
//
// A harness defines a Case type (ser / deser / optional fp), a draw() function that
// builds a Case from rapidcheck generators (imperative style, so the whole case shrinks
// as one value), a pure check(const Case&) that reports through FAIL()/COUNT()/
// NONTRIVIAL()/WORST(), and optionally enumerate() for finite strata.
// Modes: --mode pbt | enum | replay | merge.
#pragma once
#include <rapidcheck.h>
#include <cerrno>
#include <csignal>
#include <cstdarg>
#include <cstdint>
#include <cstdio>
#include <cstdlib>
#include <cstring>
#include <algorithm>
#include <functional>
#include <map>
#include <string>
#include <unordered_set>
#include <vector>
#include <unistd.h>
#include <ctime>
#include <fcntl.h>
#include <sys/mman.h>

#if defined(__SANITIZE_ADDRESS__)
#define VH_ASAN 1
#elif defined(__has_feature)
#if __has_feature(address_sanitizer)
#define VH_ASAN 1
#endif
#endif

namespace vh {

// ---------------------------------------------------------------- primitives
// All randomness comes from rapidcheck; resize(100) so that ranges do not
// collapse at small sizes (rapidcheck ramps the size over the run).
inline int ri(int lo, int hi) {  // inclusive
    return *rc::gen::resize(100, rc::gen::inRange<int>(lo, hi + 1));
}
inline int64_t ri64(int64_t lo, int64_t hi) {
    return *rc::gen::resize(100, rc::gen::inRange<int64_t>(lo, hi + 1));
}
inline uint64_t r64() { return *rc::gen::resize(100, rc::gen::arbitrary<uint64_t>()); }
inline double runit() { return (double)(r64() >> 11) * (1.0 / 9007199254740992.0); }
inline bool rbool() { return ri(0, 1) == 1; }
// weighted pick: returns index; weights small ints. Index 0 is the shrink target.
inline int rpick(std::initializer_list<int> w) {
    int tot = 0;
    for (int x : w) tot += x;
    int r = ri(0, tot - 1), i = 0;
    for (int x : w) {
        if (r < x) return i;
        r -= x;
        i++;
    }
    return 0;
}

inline uint64_t splitmix(uint64_t &s) {
    uint64_t z = (s += 0x9E3779B97F4A7C15ULL);
    z = (z ^ (z >> 30)) * 0xBF58476D1CE4E5B9ULL;
    z = (z ^ (z >> 27)) * 0x94D049BB133111EBULL;
    return z ^ (z >> 31);
}
inline uint64_t fnv(const std::string &s) {
    uint64_t h = 1469598103934665603ULL;
    for (unsigned char c : s) {
        h ^= c;
        h *= 1099511628211ULL;
    }
    return h;
}
inline uint64_t mix64(uint64_t a, uint64_t b) {
    uint64_t s = a ^ (b * 0x9E3779B97F4A7C15ULL);
    return splitmix(s);
}

inline std::string fmt(const char *f, ...) {
    char buf[2048];
    va_list ap;
    va_start(ap, f);
    vsnprintf(buf, sizeof buf, f, ap);
    va_end(ap);
    return buf;
}

// ---------------------------------------------------------------- run state
struct Counter {
    const char *name;
    uint64_t n = 0;
    int nsamples = 0;
    Counter(const char *nm);
};
struct Worst {
    const char *name;
    double v = 0;
    std::string at;
    Worst(const char *nm);
};
struct State {
    std::vector<Counter *> counters;
    std::vector<Worst *> worsts;
    std::map<std::string, std::vector<std::string>> samples;
    std::map<std::string, uint64_t> excluded_known;
    std::vector<std::string> known;  // signatures excluded by construction
    uint64_t evaluations = 0, nontrivial = 0;
    std::unordered_set<uint64_t> fps;
    size_t fp_cap = 2000000;
    bool fp_capped = false;
    // current case
    bool cur_fail = false, cur_nontrivial = false, cur_discard = false;
    std::string cur_msg, cur_sig;
    std::function<std::string()> cur_ser;
    std::string failout;
    bool in_case = false;
    unsigned ambient = 0;  // index of the ambient errno value for the next case
    bool verbose = false;
    char *trace = nullptr;  // shared file mapping "<failout>.cur": the case being executed (survives _exit/abort)
    size_t trace_sz = 1 << 22;
};
inline State &S() {
    static State s;
    return s;
}
inline Counter::Counter(const char *nm) : name(nm) { S().counters.push_back(this); }
inline Worst::Worst(const char *nm) : name(nm) { S().worsts.push_back(this); }

inline void count_hit(Counter &c) {
    c.n++;
    if (c.nsamples < 2 && S().cur_ser) {
        c.nsamples++;
        S().samples[c.name].push_back(S().cur_ser());
    }
}
#define COUNT(name)                    \
    do {                               \
        static vh::Counter _c(name);   \
        vh::count_hit(_c);             \
    } while (0)
#define NONTRIVIAL() (vh::S().cur_nontrivial = true)
#define DISCARD() (vh::S().cur_discard = true)
#define WORST(name, val)                                  \
    do {                                                  \
        static vh::Worst _w(name);                        \
        double _v = (double)(val);                        \
        if (_v > _w.v) {                                  \
            _w.v = _v;                                    \
            if (vh::S().cur_ser) _w.at = vh::S().cur_ser(); \
        }                                                 \
    } while (0)
// record a failure (first one wins) — the caller should return afterwards
#define FAIL(sig, ...)                              \
    do {                                            \
        if (!vh::S().cur_fail) {                    \
            vh::S().cur_fail = true;                \
            vh::S().cur_sig = (sig);                \
            vh::S().cur_msg = vh::fmt(__VA_ARGS__); \
        }                                           \
    } while (0)
#define FAILED() (vh::S().cur_fail)
#define CHECK(cond, sig, ...)                 \
    do {                                      \
        if (!(cond)) {                        \
            FAIL(sig, __VA_ARGS__);           \
            return;                           \
        }                                     \
    } while (0)

// ---------------------------------------------------------------- JSON out
inline std::string jesc(const std::string &s) {
    std::string o;
    for (unsigned char c : s) {
        if (c == '"' || c == '\\') {
            o += '\\';
            o += c;
        } else if (c < 0x20) {
            o += fmt("\\u%04x", c);
        } else
            o += c;
    }
    return o;
}

inline void write_fail_file(const std::string &path, const std::string &ser,
                            const std::string &sig, const std::string &msg) {
    if (path.empty()) return;
    FILE *f = fopen(path.c_str(), "w");
    if (!f) return;
    fprintf(f, "%s\n#sig %s\n#msg %s\n", ser.c_str(), sig.c_str(), msg.c_str());
    fclose(f);
}

inline void on_death() {
    State &s = S();
    static bool done = false;
    if (done) return;
    done = true;
    if (s.in_case && s.cur_ser) {
        write_fail_file(s.failout, s.cur_ser(), "abort", "process aborted (sanitizer / assertion / signal) while executing this case");
    }
}
inline void sig_handler(int sig) {
    on_death();
    signal(sig, SIG_DFL);
    raise(sig);
}
extern "C" void __sanitizer_set_death_callback(void (*)(void)) __attribute__((weak));
inline void install_death_hooks() {
    for (int sg : {SIGABRT, SIGSEGV, SIGBUS, SIGFPE, SIGILL}) signal(sg, sig_handler);
    if (__sanitizer_set_death_callback) __sanitizer_set_death_callback(on_death);
}

// ---------------------------------------------------------------- harness definition
template <class Case>
struct Harness {
    const char *id;
    std::function<Case()> draw;                // rapidcheck imperative generator
    std::function<void(const Case &)> check;   // pure oracle
    // optional deterministic strata: call emit(case) for each; shard i of n
    std::function<void(const std::string &tier, int shard, int nshards,
                       const std::function<void(const Case &)> &emit)>
        enumerate;
    std::function<std::string(const Case &)> ser;
    std::function<bool(const std::string &, Case &)> deser;
    std::function<uint64_t(const Case &)> fp;  // optional
    std::function<void()> selftest;            // optional: reference-model self tests
};

template <class Case>
bool run_one(const Harness<Case> &h, const Case &c, bool record) {
    State &s = S();
    s.cur_fail = false;
    s.cur_nontrivial = false;
    s.cur_discard = false;
    s.cur_msg.clear();
    s.cur_sig.clear();
    s.cur_ser = [&]() { return h.ser(c); };
    s.in_case = true;
    if (s.trace) {
        std::string t = h.ser(c);
        size_t n = std::min(t.size(), s.trace_sz - 2);
        memcpy(s.trace, t.data(), n);
        s.trace[n] = '\n';
        s.trace[n + 1] = 0;
    }
    // ambient thread state a caller may arrive with: errno left behind by unrelated calls. It rotates with the case counter; replay and
    // shrinking try all values (run_all_ambient), so a failure that needs one particular value reproduces from the case file alone.
    static const int AMBIENT_ERRNO[4] = {0, ERANGE, EDOM, EINVAL};
    errno = AMBIENT_ERRNO[s.ambient & 3];
    h.check(c);
    errno = 0;
    s.in_case = false;
    if (s.trace) s.trace[0] = 0;
    bool ok = !s.cur_fail;
    if (!ok) {
        for (auto &k : s.known)
            if (k == s.cur_sig) {
                if (record) s.excluded_known[k]++;
                ok = true;  // excluded by construction; the search continues
                s.cur_discard = true;
            }
    }
    if (record) s.ambient++;
    if (record && !s.cur_discard) {
        s.evaluations++;
        if (s.cur_nontrivial) {
            s.nontrivial++;
            if (s.fps.size() < s.fp_cap)
                s.fps.insert(h.fp ? h.fp(c) : fnv(h.ser(c)));
            else
                s.fp_capped = true;
        }
    }
    s.cur_ser = nullptr;
    return ok;
}

// replay / shrinking: the case under every ambient value; false at the first failure (verdict fields are those of the failing run)
template <class Case>
bool run_all_ambient(const Harness<Case> &h, const Case &c) {
    State &s = S();
    for (unsigned a = 0; a < 4; a++) {
        s.ambient = a;
        if (!run_one(h, c, false)) return false;
    }
    return true;
}

inline void write_fragment(const std::string &out, const std::string &fpfile, bool failed,
                           const std::string &mode) {
    State &s = S();
    if (!fpfile.empty()) {
        std::vector<uint64_t> v(s.fps.begin(), s.fps.end());
        std::sort(v.begin(), v.end());
        FILE *f = fopen(fpfile.c_str(), "wb");
        if (f) {
            if (!v.empty()) fwrite(v.data(), 8, v.size(), f);
            fclose(f);
        }
    }
    if (out.empty()) return;
    FILE *f = fopen(out.c_str(), "w");
    if (!f) return;
    fprintf(f, "{\"mode\":\"%s\",\"evaluations\":%llu,\"nontrivial\":%llu,\"distinct_local\":%zu,\"fp_capped\":%s,\"failed\":%s,\n",
            mode.c_str(), (unsigned long long)s.evaluations, (unsigned long long)s.nontrivial,
            s.fps.size(), s.fp_capped ? "true" : "false", failed ? "true" : "false");
    fprintf(f, "\"counters\":{");
    bool first = true;
    std::map<std::string, uint64_t> cs;
    for (auto *c : s.counters) cs[c->name] += c->n;
    for (auto &kv : cs) {
        fprintf(f, "%s\"%s\":%llu", first ? "" : ",", jesc(kv.first).c_str(), (unsigned long long)kv.second);
        first = false;
    }
    fprintf(f, "},\n\"worst\":{");
    first = true;
    std::map<std::string, std::pair<double, std::string>> ws;
    for (auto *w : s.worsts)
        if (!ws.count(w->name) || ws[w->name].first < w->v) ws[w->name] = {w->v, w->at};
    for (auto &kv : ws) {
        fprintf(f, "%s\"%s\":{\"value\":%.6e,\"at\":\"%s\"}", first ? "" : ",", jesc(kv.first).c_str(),
                kv.second.first, jesc(kv.second.second).c_str());
        first = false;
    }
    fprintf(f, "},\n\"excluded_known\":{");
    first = true;
    for (auto &kv : s.excluded_known) {
        fprintf(f, "%s\"%s\":%llu", first ? "" : ",", jesc(kv.first).c_str(), (unsigned long long)kv.second);
        first = false;
    }
    fprintf(f, "},\n\"samples\":{");
    first = true;
    for (auto &kv : s.samples) {
        fprintf(f, "%s\"%s\":[", first ? "" : ",", jesc(kv.first).c_str());
        for (size_t i = 0; i < kv.second.size(); i++)
            fprintf(f, "%s\"%s\"", i ? "," : "", jesc(kv.second[i]).c_str());
        fprintf(f, "]");
        first = false;
    }
    fprintf(f, "}}\n");
    fclose(f);
}

inline std::string read_case_file(const std::string &path) {
    FILE *f = fopen(path.c_str(), "r");
    if (!f) return "";
    std::string all, line;
    char buf[65536];
    while (fgets(buf, sizeof buf, f)) {
        line = buf;
        if (!line.empty() && line[0] == '#') continue;
        all += line;
    }
    fclose(f);
    while (!all.empty() && (all.back() == '\n' || all.back() == '\r' || all.back() == ' ')) all.pop_back();
    return all;
}

template <class Case>
int harness_main(int argc, char **argv, const Harness<Case> &h) {
    std::string mode = "pbt", out, fpfile, tier = "quick", replay;
    uint64_t seed = 1;
    long cases = 1000;
    int shard = 0, nshards = 1, maxsize = 100;
    std::vector<std::string> rest;
    State &s = S();
    for (int i = 1; i < argc; i++) {
        std::string a = argv[i];
        auto nx = [&]() { return std::string(i + 1 < argc ? argv[++i] : ""); };
        if (a == "--mode") mode = nx();
        else if (a == "--seed") seed = strtoull(nx().c_str(), 0, 10);
        else if (a == "--cases") cases = atol(nx().c_str());
        else if (a == "--tier") tier = nx();
        else if (a == "--out") out = nx();
        else if (a == "--fp") fpfile = nx();
        else if (a == "--failout") s.failout = nx();
        else if (a == "--replay") { mode = "replay"; replay = nx(); }
        else if (a == "--shard") { std::string v = nx(); sscanf(v.c_str(), "%d/%d", &shard, &nshards); }
        else if (a == "--known") { std::string v = nx(); size_t p = 0; while (p <= v.size()) { size_t q = v.find(',', p); if (q == std::string::npos) q = v.size(); if (q > p) s.known.push_back(v.substr(p, q - p)); p = q + 1; } }
        else if (a == "--fpcap") s.fp_cap = atol(nx().c_str());
        else if (a == "--maxsize") maxsize = atoi(nx().c_str());
        else if (a == "-v") s.verbose = true;
        else rest.push_back(a);
    }
    if (mode == "merge") {  // count distinct fingerprints over several sorted files
        std::vector<uint64_t> all;
        for (auto &p : rest) {
            FILE *f = fopen(p.c_str(), "rb");
            if (!f) continue;
            uint64_t buf[4096];
            size_t n;
            while ((n = fread(buf, 8, 4096, f)) > 0) all.insert(all.end(), buf, buf + n);
            fclose(f);
        }
        std::sort(all.begin(), all.end());
        size_t d = std::unique(all.begin(), all.end()) - all.begin();
        printf("%zu\n", d);
        return 0;
    }
    install_death_hooks();
#ifdef VH_ASAN
    if (!s.failout.empty() && mode != "replay") {
        // sanitizer aborts do not reliably run callbacks: keep the current case in a shared file mapping
        std::string tp = s.failout + ".cur";
        int fd = open(tp.c_str(), O_RDWR | O_CREAT | O_TRUNC, 0644);
        if (fd >= 0 && ftruncate(fd, (off_t)s.trace_sz) == 0) {
            void *m = mmap(nullptr, s.trace_sz, PROT_READ | PROT_WRITE, MAP_SHARED, fd, 0);
            if (m != MAP_FAILED) s.trace = (char *)m;
        }
        if (fd >= 0) close(fd);
    }
#endif
    if (h.selftest) h.selftest();
    if (mode == "replay") {
        std::string txt = read_case_file(replay);
        Case c;
        if (!h.deser(txt, c)) {
            fprintf(stderr, "cannot parse case file %s\n", replay.c_str());
            return 2;
        }
        std::vector<std::string> known = s.known;
        s.known.clear();  // replay judges the raw verdict; signature printed
        bool ok = run_all_ambient(h, c);
        if (ok) {
            printf("REPLAY pass %s\n", h.ser(c).c_str());
            return 0;
        }
        printf("REPLAY fail sig=%s msg=%s\ncase=%s\n", s.cur_sig.c_str(), s.cur_msg.c_str(), h.ser(c).c_str());
        for (auto &k : known)
            if (k == s.cur_sig) return 3;
        return 1;
    }
    bool failed = false;
    Case lastFail{};
    std::string lastSig, lastMsg;
    if (mode == "enum") {
        if (h.enumerate) {
            h.enumerate(tier, shard, nshards, [&](const Case &c) {
                if (failed) return;
                if (!run_one(h, c, true)) {
                    failed = true;
                    lastFail = c;
                    lastSig = s.cur_sig;
                    lastMsg = s.cur_msg;
                }
            });
        }
    } else {
        std::string params = fmt("seed=%llu max_success=%ld max_size=%d max_discard_ratio=1000 noshrink=0",
                                 (unsigned long long)seed, cases, maxsize);
        setenv("RC_PARAMS", params.c_str(), 1);
        bool shrinking = false;
        long shrinkEvals = 0;
        time_t shrinkStart = 0;
        bool ok = rc::check(h.id, [&]() {
            Case c = h.draw();
            if (shrinking) {
                // bounded shrinking: past the budget every candidate "passes", so rapidcheck settles on the current minimum.
                // (only the minimality of the reported case depends on this budget, never the verdict)
                if (++shrinkEvals > 600 || time(nullptr) - shrinkStart > 90) return;
            }
            bool good = shrinking ? run_all_ambient(h, c) : run_one(h, c, true);
            if (s.cur_discard && good) RC_DISCARD("discard");
            if (!good) {
                if (!shrinking) shrinkStart = time(nullptr);
                shrinking = true;  // everything after the first failure is shrinking
                lastFail = c;
                lastSig = s.cur_sig;
                lastMsg = s.cur_msg;
                RC_FAIL(s.cur_msg);
            }
        });
        failed = !ok && shrinking;
        if (!ok && !shrinking) {
            // rapidcheck gave up (too many discards): inconclusive, not a violation
            fprintf(stderr, "rapidcheck gave up (discards)\n");
        }
    }
    if (failed) {
        write_fail_file(s.failout, h.ser(lastFail), lastSig, lastMsg);
        printf("FAILED sig=%s msg=%s case=%s\n", lastSig.c_str(), lastMsg.c_str(), h.ser(lastFail).c_str());
    }
    write_fragment(out, fpfile, failed, mode);
    return failed ? 1 : 0;
}

// ---------------------------------------------------------------- guard buffers
// Heap buffer of exactly n elements (ASan catches overruns in the asan variant) plus
// explicit guard words before/after so that the fast variant sees overruns too.
#if defined(__SANITIZE_ADDRESS__)
#define VH_ASAN 1
#elif defined(__has_feature)
#if __has_feature(address_sanitizer)
#define VH_ASAN 1
#endif
#endif
#ifdef VH_ASAN
extern "C" void __asan_poison_memory_region(void const volatile *, size_t);
extern "C" void __asan_unpoison_memory_region(void const volatile *, size_t);
#endif
template <class T>
struct Guarded {
    static constexpr size_t G = 8;
    std::vector<unsigned char> raw;
    size_t n;
    explicit Guarded(size_t n_, unsigned char fill = 0) : raw(n_ * sizeof(T) + 2 * G * 8, 0xA5), n(n_) {
        memset(raw.data() + G * 8, fill, n * sizeof(T));
        poison(true);
    }
    ~Guarded() { poison(false); }
    Guarded(const Guarded &) = delete;
    void poison(bool on) {
#ifdef VH_ASAN
        if (on) {
            __asan_poison_memory_region(raw.data(), G * 8);
            __asan_poison_memory_region(raw.data() + raw.size() - G * 8, G * 8);
        } else {
            __asan_unpoison_memory_region(raw.data(), G * 8);
            __asan_unpoison_memory_region(raw.data() + raw.size() - G * 8, G * 8);
        }
#else
        (void)on;
#endif
    }
    T *p() { return reinterpret_cast<T *>(raw.data() + G * 8); }
    T &operator[](size_t i) { return p()[i]; }
    bool intact() {
        poison(false);
        bool ok = true;
        for (size_t i = 0; i < G * 8; i++)
            if (raw[i] != 0xA5 || raw[raw.size() - 1 - i] != 0xA5) ok = false;
        poison(true);
        return ok;
    }
};

}  // namespace vh
