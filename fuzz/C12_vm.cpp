// C12 — every API call is memory-safe and total on arbitrary arguments (DESIGN.md §4 C12)
// libFuzzer entry points around engine/apivm.hpp (decoder, dispatcher and oracle live there).
// A violation prints "C12-VIOLATION ..." and traps; libFuzzer saves the input as crash-<sha1>, which is the replay
// file (run the binary with the file as its only argument).
#include "apivm.hpp"
#include <csignal>
#include <fcntl.h>

// ---- structured enumeration phase (VERIF_ENUM=shard/nshards): runs inside LLVMFuzzerInitialize, i.e. before libFuzzer installs its own
// signal handlers; the program being executed is kept in a static buffer and written out as crash-enum-<pid> if the process dies
static uint8_t g_cur[256];
static size_t g_cur_n = 0;
static char g_art[512];
static void note_program(const uint8_t *p, size_t n) {
    g_cur_n = n < sizeof g_cur ? n : sizeof g_cur;
    memcpy(g_cur, p, g_cur_n);
}
static void write_current() {
    static int done = 0;
    if (done || !g_cur_n || !g_art[0]) return;
    done = 1;
    int fd = open(g_art, O_WRONLY | O_CREAT | O_TRUNC, 0644);
    if (fd >= 0) { ssize_t w = write(fd, g_cur, g_cur_n); (void)w; close(fd); }
}
static void on_signal(int sig) {
    write_current();
    apivm::dump_fragment();
    signal(sig, SIG_DFL);
    raise(sig);
}
extern "C" void __sanitizer_set_death_callback(void (*)(void));

extern "C" int LLVMFuzzerInitialize(int *, char ***) {
    apivm::init_from_env();
    atexit(apivm::dump_fragment);
    if (const char *e = getenv("VERIF_ENUM")) {
        int shard = 0, nshards = 1;
        sscanf(e, "%d/%d", &shard, &nshards);
        const char *dir = getenv("VERIF_ENUM_ART");
        snprintf(g_art, sizeof g_art, "%s/crash-enum-%ld", dir ? dir : ".", (long)getpid());
        for (int sg : {SIGABRT, SIGSEGV, SIGBUS, SIGFPE, SIGILL, SIGTERM}) signal(sg, on_signal);  // SIGTERM: the driver's CPU budget ran out
        __sanitizer_set_death_callback(write_current);
        uint64_t seed = getenv("VERIF_SEED") ? strtoull(getenv("VERIF_SEED"), nullptr, 10) : 1;
        int payloads = getenv("VERIF_ENUM_PAYLOADS") ? atoi(getenv("VERIF_ENUM_PAYLOADS")) : 16;
        uint64_t n = apivm::enumerate_programs(shard, nshards, seed, payloads, note_program);
        g_cur_n = 0;
        fprintf(stderr, "ENUM done: %llu programs\n", (unsigned long long)n);
        apivm::dump_fragment();
        _exit(0);  // enumeration-only process
    }
    return 0;
}

extern "C" int LLVMFuzzerTestOneInput(const uint8_t *data, size_t size) {
    // the library has no global state to reset (that is property C18); the VM state is local to the call
    apivm::run_program(data, size);
    return 0;
}
