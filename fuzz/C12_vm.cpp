// C12 — every API call is memory-safe and total on arbitrary arguments (DESIGN.md §4 C12)
// libFuzzer entry points around engine/apivm.hpp (decoder, dispatcher and oracle live there).
// A violation prints "C12-VIOLATION ..." and traps; libFuzzer saves the input as crash-<sha1>, which is the replay
// file (run the binary with the file as its only argument).
#include "apivm.hpp"

extern "C" int LLVMFuzzerInitialize(int *, char ***) {
    apivm::init_from_env();
    atexit(apivm::dump_fragment);
    return 0;
}

extern "C" int LLVMFuzzerTestOneInput(const uint8_t *data, size_t size) {
    // the library has no global state to reset (that is property C18); the VM state is local to the call
    apivm::run_program(data, size);
    return 0;
}
