// C12 — standalone runner of API-VM programs (no fuzzer, no sanitizer): prints "<file> <observation digest>" per program.
// Used by the C12 check for (a) valgrind memcheck over the whole corpus (uninitialised-value use is invisible to ASan/UBSan) and
// (b) a cross-build differential: gcc -O2 vs clang -O0 must observe identical digests (results that depend on undefined or
// uninitialised state differ between builds).
#include "apivm.hpp"
#include <dirent.h>
#include <algorithm>
int main(int argc, char **argv) {
    apivm::init_from_env();
    std::vector<std::string> files;
    for (int i = 1; i < argc; i++) {
        DIR *d = opendir(argv[i]);
        if (!d) { files.push_back(argv[i]); continue; }
        while (struct dirent *e = readdir(d)) if (e->d_name[0] != '.') files.push_back(std::string(argv[i]) + "/" + e->d_name);
        closedir(d);
    }
    std::sort(files.begin(), files.end());
    for (auto &f : files) {
        FILE *fp = fopen(f.c_str(), "rb");
        if (!fp) continue;
        std::vector<uint8_t> b(8192);
        size_t n = fread(b.data(), 1, b.size(), fp);
        fclose(fp);
        uint64_t d = apivm::run_program(b.data(), n);
        printf("%s %016llx\n", f.c_str() + f.rfind('/') + 1, (unsigned long long)d);
    }
    return 0;
}
