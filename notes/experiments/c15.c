#include <stdio.h>
#include <stdlib.h>
#include <math.h>
#include "h3api.h"
int main(){
  for(int res=2;res<=9;res+=3){
  LatLng c={0.65,-2.13}; H3Index h; latLngToCell(&c,res,&h); LatLng g; cellToLatLng(h,&g);
  double el; getHexagonEdgeLengthAvgKm(res,&el); double r=el/6371.0;
  LatLng outer[4]={{g.lat-5*r,g.lng-5*r},{g.lat-5*r,g.lng+5*r},{g.lat+5*r,g.lng+5*r},{g.lat+5*r,g.lng-5*r}};
  double hr=0.2*r; LatLng hole[4]={{g.lat-hr,g.lng-hr},{g.lat+hr,g.lng-hr},{g.lat+hr,g.lng+hr},{g.lat-hr,g.lng+hr}};
  GeoLoop hl={4,hole}; GeoPolygon gp={{4,outer},1,&hl};
  for(int mode=0;mode<4;mode++){int64_t sz; maxPolygonToCellsSizeExperimental(&gp,res,mode,&sz); H3Index*o=calloc(sz,8); H3Error e=polygonToCellsExperimental(&gp,res,mode,sz,o); int n=0,has=0; for(int i=0;i<sz;i++){if(o[i]){n++; if(o[i]==h)has=1;}} printf("res %d mode %d err %d n %d contains-holed-cell %d (max %lld)\n",res,mode,e,n,has,(long long)sz); free(o);}
  }
}
