// Experiment: getIcosahedronFaces vs geometric clipping of cell polygon against face Voronoi regions
#include <stdio.h>
#include <stdlib.h>
#include <math.h>
#include "h3api.h"
typedef long double ld; typedef struct{ld x,y,z;}V;
static unsigned long long s=88172645463325252ULL; static unsigned long long rnd(){s^=s<<13;s^=s>>7;s^=s<<17;return s;}
static double ur(){return (rnd()>>11)/9007199254740992.0;}
static const double FC[20][2]={{0.803582649718989942,1.248397419617396099},{1.307747883455638156,2.536945009877921159},{1.054751253523952054,-1.347517358900396623},{0.600191595538186799,-0.450603909469755746},{0.491715428198773866,0.401988202911306943},{0.172745327415618701,1.678146885280433686},{0.605929321571350690,2.953923329812411617},{0.427370518328979641,-1.888876200336285401},{-0.079066118549212831,-0.733429513380867741},{-0.230961644455383637,0.506495587332349035},{0.079066118549212831,2.408163140208925497},{0.230961644455383637,-2.635097066257444203},{-0.172745327415618701,-1.463445768309359553},{-0.605929321571350690,-0.187669323777381622},{-0.427370518328979641,1.252716453253507838},{-0.600191595538186799,2.690988744120037492},{-0.491715428198773866,-2.739604450678486295},{-0.803582649718989942,-1.893195233972397139},{-1.307747883455638156,-0.604647643711872080},{-1.054751253523952054,1.794075294689396615}};
static V tov(double lat,double lng){ld c=cosl((ld)lat);V v={c*cosl((ld)lng),c*sinl((ld)lng),sinl((ld)lat)};return v;}
static V cross(V a,V b){V r={a.y*b.z-a.z*b.y,a.z*b.x-a.x*b.z,a.x*b.y-a.y*b.x};return r;}
static ld dot(V a,V b){return a.x*b.x+a.y*b.y+a.z*b.z;}
static V nrm(V a){ld n=sqrtl(dot(a,a));V r={a.x/n,a.y/n,a.z/n};return r;}
static V sub(V a,V b){V r={a.x-b.x,a.y-b.y,a.z-b.z};return r;}
// clip polygon (unit vectors) by half-space n.p>=0
static int clip(V*in,int n,V pl,V*out){int m=0;for(int i=0;i<n;i++){V a=in[i],b=in[(i+1)%n];ld da=dot(a,pl),db=dot(b,pl);if(da>=0)out[m++]=a;if((da>=0)!=(db>=0)){ld t=da/(da-db);V p={a.x+t*(b.x-a.x),a.y+t*(b.y-a.y),a.z+t*(b.z-a.z)};out[m++]=nrm(p);}}return m;}
// approximate area via planar fan on unit vectors (fine for fractions)
static ld area(V*p,int n){if(n<3)return 0;ld A=0;for(int i=1;i+1<n;i++){V c=cross(sub(p[i],p[0]),sub(p[i+1],p[0]));A+=sqrtl(dot(c,c))/2;}return A;}
int main(int argc,char**argv){int trials=atoi(argv[1]);V fc[20];for(int f=0;f<20;f++)fc[f]=tov(FC[f][0],FC[f][1]);
 for(int res=0;res<=15;res++){long n=0,miss=0,extra=0,und=0,multi=0,badpad=0; 
  for(int t=0;t<trials;t++){H3Index a; int mode=t%4;
   if(mode==0){H3Index p[12];getPentagons(res,p);a=p[rnd()%12]; if(rnd()%3){H3Index r[19]={0};gridDisk(a,2,r);H3Index c=r[rnd()%19];if(c)a=c;}}
   else if(mode==1||mode==2){ // point near icosa edge: between two adjacent face centres
     int f=rnd()%20; int g=-1; ld best=-2; int k=rnd()%3,c=0; for(int h=0;h<20;h++){if(h==f)continue; ld d=dot(fc[f],fc[h]); if(d>0.74L){ if(c==k){g=h;} c++;}} if(g<0)g=(f+1)%20;
     // edge midpoint direction = fc[f]+fc[g]; move along edge randomly
     V mid=nrm((V){fc[f].x+fc[g].x,fc[f].y+fc[g].y,fc[f].z+fc[g].z}); V ed=nrm(cross(sub(fc[f],fc[g]),mid)); ld tt=(ur()-0.5)*0.55; V p=nrm((V){mid.x+tt*ed.x,mid.y+tt*ed.y,mid.z+tt*ed.z}); LatLng gll={(double)asinl(p.z),(double)atan2l(p.y,p.x)}; latLngToCell(&gll,res,&a);}
   else {LatLng g={asin(2*ur()-1),(2*ur()-1)*M_PI};latLngToCell(&g,res,&a);}
   int mf; maxFaceCount(a,&mf); int out[5]={-7,-7,-7,-7,-7}; H3Error e=getIcosahedronFaces(a,out); if(e){printf("ERR %d %llx\n",e,(unsigned long long)a);continue;}
   CellBoundary cb; cellToBoundary(a,&cb); V poly[10]; for(int i=0;i<cb.numVerts;i++)poly[i]=tov(cb.verts[i].lat,cb.verts[i].lng); ld A=area(poly,cb.numVerts);
   n++; int cnt=0; for(int i=0;i<mf;i++){ if(out[i]==-1)continue; if(out[i]<0||out[i]>19){badpad++;continue;} cnt++; for(int j=0;j<i;j++) if(out[j]==out[i])badpad++; }
   if(cnt>1)multi++;
   for(int f=0;f<20;f++){ // clip by bisector planes vs all other faces
     V cur[40],nx[40]; int m=cb.numVerts; for(int i=0;i<m;i++)cur[i]=poly[i];
     for(int g=0;g<20&&m>=3;g++){ if(g==f)continue; if(dot(fc[f],fc[g])<0.7L)continue; m=clip(cur,m,sub(fc[f],fc[g]),nx); for(int i=0;i<m;i++)cur[i]=nx[i]; }
     ld frac=m>=3?area(cur,m)/A:0; int rep=0; for(int i=0;i<mf;i++) if(out[i]==f)rep=1;
     if(frac>1e-6L){ if(!rep){miss++; if(miss<4)printf("MISS res %d cell %llx face %d frac %.3Le\n",res,(unsigned long long)a,f,frac);} }
     else if(frac<1e-9L){ if(rep){extra++; if(extra<4)printf("EXTRA res %d cell %llx face %d frac %.3Le\n",res,(unsigned long long)a,f,frac);} }
     else und++;
   }}
  printf("res %2d n %ld multi-face %ld miss %ld extra %ld undecided %ld badpad %ld\n",res,n,multi,miss,extra,und,badpad);
 }}
