// Prototype reference model for child ordering / positions on digit strings
#include <stdio.h>
#include <stdlib.h>
#include <stdint.h>
#include <math.h>
#include "h3api.h"
static unsigned long long s=88172645463325252ULL; static unsigned long long rnd(){s^=s<<13;s^=s>>7;s^=s<<17;return s;}
static double ur(){return (rnd()>>11)/9007199254740992.0;}
static const int PENT[12]={4,14,24,38,49,58,63,72,83,97,107,117};
typedef struct{int res,bc,d[16];}C; // d[1..15]
static C unpack(uint64_t h){C c;c.res=(h>>52)&15;c.bc=(h>>45)&127;for(int r=1;r<=15;r++)c.d[r]=(h>>(3*(15-r)))&7;return c;}
static uint64_t pack(C c){uint64_t h=(1ULL<<59)|((uint64_t)c.res<<52)|((uint64_t)c.bc<<45);for(int r=1;r<=15;r++)h|=(uint64_t)(r<=c.res?c.d[r]:7)<<(3*(15-r));return h;}
static int isPentBC(int bc){for(int i=0;i<12;i++)if(PENT[i]==bc)return 1;return 0;}
static int refIsPent(C c){if(!isPentBC(c.bc))return 0;for(int r=1;r<=c.res;r++)if(c.d[r])return 0;return 1;}
static __int128 p7(int n){__int128 r=1;while(n--)r*=7;return r;}
static __int128 refCount(C c,int cr){int n=cr-c.res;return refIsPent(c)?1+5*(p7(n)-1)/6:p7(n);}
// child at position pos (lexicographic over allowed digit strings)
static C refChildAt(C p,int cr,__int128 pos){C c=p;c.res=cr;int inPent=refIsPent(p);for(int r=p.res+1;r<=cr;r++){int rem=cr-r; // digits remaining after r
   if(inPent){__int128 pw=1+5*(p7(rem)-1)/6; if(pos<pw){c.d[r]=0;} else {pos-=pw; __int128 hw=p7(rem); int k=(int)(pos/hw); c.d[r]=2+k; pos%=hw; inPent=0;}}
   else {__int128 hw=p7(rem); c.d[r]=(int)(pos/hw); pos%=hw;}} return c;}
int main(){ long n=0,bad=0,badpos=0,badenum=0,enums=0;
 for(int t=0;t<300000;t++){int res=rnd()%16; H3Index h; if(t%2==0){H3Index p[12];getPentagons(res,p);h=p[rnd()%12]; if(rnd()%2&&res>0){ // descendant leaving pentagon chain
      int pr=rnd()%res; getPentagons(pr,p); H3Index par=p[rnd()%12]; int64_t sz; cellToChildrenSize(par,res,&sz); childPosToCell((int64_t)(ur()*sz),par,res,&h);} } else {LatLng g={asin(2*ur()-1),(2*ur()-1)*M_PI};latLngToCell(&g,res,&h);}
   int cr=res+rnd()%(16-res); int64_t sz; if(cellToChildrenSize(h,cr,&sz))continue; C P=unpack(h); __int128 rc=refCount(P,cr); if((__int128)sz!=rc){bad++;continue;}
   for(int q=0;q<6;q++){int64_t pos= q==0?0: q==1?sz-1: (int64_t)(ur()*sz); if(q>=2&&refIsPent(P)&&cr>res){ // boundaries of pentagon sub-block
        int64_t pw=(int64_t)(1+5*(p7(cr-res-1)-1)/6); pos= q==2?pw-1: q==3?pw: pos; if(pos>=sz)pos=sz-1;}
     H3Index c; if(childPosToCell(pos,h,cr,&c)){badpos++;continue;} C R=refChildAt(P,cr,pos); n++; if(pack(R)!=c){badpos++; if(badpos<4)printf("POS parent %llx cr %d pos %lld lib %llx ref %llx\n",(unsigned long long)h,cr,(long long)pos,(unsigned long long)c,(unsigned long long)pack(R));} int64_t back; if(cellToChildPos(c,res,&back)||back!=pos)badpos++; }
   if(cr-res<=4){H3Index*ch=malloc(sz*8);cellToChildren(h,cr,ch);enums++;for(int64_t i=0;i<sz;i++){if(ch[i]!=pack(refChildAt(P,cr,i))){badenum++;break;} if(i&&ch[i]<=ch[i-1]){badenum++;break;}}free(ch);} }
 printf("positions %ld countBad %ld posBad %ld enumerations %ld enumBad %ld\n",n,bad,badpos,enums,badenum);}
