// Experiment: cellsToLinkedMultiPolygon on gridDisk sets at all resolutions; check loop count & area
#include <stdio.h>
#include <stdlib.h>
#include <string.h>
#include <math.h>
#include "h3api.h"
static unsigned long long s=88172645463325252ULL; static unsigned long long rnd(){s^=s<<13;s^=s>>7;s^=s<<17;return s;}
int main(int argc,char**argv){
  int trials=atoi(argv[1]);
  for(int res=0;res<=15;res++){
    int bad=0,err=0,multi=0; 
    for(int t=0;t<trials;t++){
      double lat=asin(2.0*(rnd()%1000000)/1e6-1), lng=(2.0*(rnd()%1000000)/1e6-1)*M_PI;
      LatLng g={lat,lng}; H3Index o; latLngToCell(&g,res,&o);
      int k=1+rnd()%3; int64_t sz; maxGridDiskSize(k,&sz); H3Index*d=calloc(sz,8); gridDisk(o,k,d);
      int n=0; for(int i=0;i<sz;i++) if(d[i]) d[n++]=d[i];
      if(res==0 && n>40){free(d);continue;}
      LinkedGeoPolygon out; H3Error e=cellsToLinkedMultiPolygon(d,n,&out);
      if(e){err++; if(err<3)printf("res %d ERR %d origin %llx k %d\n",res,e,(unsigned long long)o,k); free(d);continue;}
      int polys=0,loops=0; for(LinkedGeoPolygon*p=&out;p;p=p->next){polys++;for(LinkedGeoLoop*l=p->first;l;l=l->next)loops++;}
      if(polys!=1||loops!=1){bad++; if(bad<3)printf("res %d BAD polys %d loops %d origin %llx k %d\n",res,polys,loops,(unsigned long long)o,k);}
      destroyLinkedMultiPolygon(&out); free(d);
    }
    printf("res %d trials %d bad %d err %d\n",res,trials,bad,err);
  }
}
