// Experiment: shared boundary stretch between neighbouring cells coincides
#include <stdio.h>
#include <stdlib.h>
#include <math.h>
#include "h3api.h"
typedef long double ld; typedef struct{ld x,y,z;}V;
static unsigned long long s=88172645463325252ULL; static unsigned long long rnd(){s^=s<<13;s^=s>>7;s^=s<<17;return s;}
static double ur(){return (rnd()>>11)/9007199254740992.0;}
static V tov(LatLng g){ld c=cosl((ld)g.lat);V v={c*cosl((ld)g.lng),c*sinl((ld)g.lng),sinl((ld)g.lat)};return v;}
static ld ang(V a,V b){V c={a.y*b.z-a.z*b.y,a.z*b.x-a.x*b.z,a.x*b.y-a.y*b.x};return atan2l(sqrtl(c.x*c.x+c.y*c.y+c.z*c.z),a.x*b.x+a.y*b.y+a.z*b.z);}
int main(int argc,char**argv){int trials=atoi(argv[1]);
 for(int res=0;res<=15;res++){ double el; getHexagonEdgeLengthAvgKm(res,&el); ld cs=el/6371.0; ld worst=0; long pairs=0,anom=0,three=0,two=0; H3Index wa=0,wb=0;
  for(int t=0;t<trials;t++){ H3Index a; if(t%3==0){H3Index p[12];getPentagons(res,p);a=p[rnd()%12]; if(rnd()%3){int64_t z;maxGridDiskSize(2,&z);H3Index r[19]={0};gridDisk(a,2,r);H3Index c=r[rnd()%19];if(c)a=c;}} else {LatLng g={asin(2*ur()-1),(2*ur()-1)*M_PI};latLngToCell(&g,res,&a);}
   CellBoundary A; cellToBoundary(a,&A); H3Index ring[7]={0}; gridDisk(a,1,ring);
   for(int j=0;j<7;j++){H3Index b=ring[j]; if(!b||b==a)continue; CellBoundary B; cellToBoundary(b,&B); pairs++;
     int m[10],cnt=0; ld md=0; for(int i=0;i<A.numVerts;i++){m[i]=-1; for(int k=0;k<B.numVerts;k++){ld d=ang(tov(A.verts[i]),tov(B.verts[k])); if(d<cs*1e-3){m[i]=k;cnt++; if(d>md)md=d;}}}
     if(cnt<2||cnt>3){anom++; if(anom<5)printf("ANOM res %d a %llx b %llx cnt %d\n",res,(unsigned long long)a,(unsigned long long)b,cnt);continue;}
     if(cnt==3)three++; else two++;
     // contiguity & reverse order
     int ok=0; for(int st=0;st<A.numVerts;st++){int good=1; for(int q=0;q<cnt;q++){int i=(st+q)%A.numVerts; if(m[i]<0){good=0;break;} if(q>0){int pi=(st+q-1)%A.numVerts; if(m[i]!=(m[pi]-1+B.numVerts)%B.numVerts){good=0;break;}}} if(good){ok=1;break;}}
     if(!ok){anom++; if(anom<5)printf("ORDER ANOM res %d a %llx b %llx\n",res,(unsigned long long)a,(unsigned long long)b);}
     if(md>worst){worst=md;wa=a;wb=b;}
   }}
  printf("res %2d pairs %ld two %ld three %ld anomalies %ld worst mismatch %.3Le (%llx,%llx)\n",res,pairs,two,three,anom,worst,(unsigned long long)wa,(unsigned long long)wb);
 }}
