#include <stdio.h>
#include <stdlib.h>
#include <string.h>
#include <math.h>
#include "h3api.h"
typedef long double ld; typedef struct{ld x,y,z;}V;
static unsigned long long s=88172645463325252ULL; static unsigned long long rnd(){s^=s<<13;s^=s>>7;s^=s<<17;return s;}
static double ur(){return (rnd()>>11)/9007199254740992.0;}
static V tov(LatLng g){ld c=cosl((ld)g.lat);V v={c*cosl((ld)g.lng),c*sinl((ld)g.lng),sinl((ld)g.lat)};return v;}
static V nrm(V a){ld n=sqrtl(a.x*a.x+a.y*a.y+a.z*a.z);V r={a.x/n,a.y/n,a.z/n};return r;}
static int cmp(const void*a,const void*b){H3Index x=*(H3Index*)a,y=*(H3Index*)b;return x<y?-1:x>y;}
int main(){
 for(int res=0;res<=15;res++){ long n=0,bad=0;
  for(int t=0;t<20000;t++){H3Index a; if(t%3==0){H3Index p[12];getPentagons(res,p);H3Index r[19]={0};gridDisk(p[rnd()%12],2,r);a=r[rnd()%19]; if(!a)continue;} else {LatLng g={asin(2*ur()-1),(2*ur()-1)*M_PI}; if(t%7==0)g.lat=(t%2?1:-1)*(M_PI/2-ur()*0.01); latLngToCell(&g,res,&a);}
   CellBoundary cb; cellToBoundary(a,&cb); LatLng cc; cellToLatLng(a,&cc); V c=tov(cc);
   H3Index geo[10]; int ng=0;
   for(int i=0;i<cb.numVerts;i++){V p=tov(cb.verts[i]),q=tov(cb.verts[(i+1)%cb.numVerts]); V m=nrm((V){p.x+q.x,p.y+q.y,p.z+q.z}); ld eps=1e-3L; V o=nrm((V){m.x+eps*(m.x-c.x),m.y+eps*(m.y-c.y),m.z+eps*(m.z-c.z)}); LatLng g={(double)asinl(o.z),(double)atan2l(o.y,o.x)}; H3Index b; latLngToCell(&g,res,&b); int dup=0; for(int j=0;j<ng;j++) if(geo[j]==b)dup=1; if(!dup)geo[ng++]=b;}
   H3Index ring[7]={0}; gridDisk(a,1,ring); H3Index lib[7]; int nl=0; for(int i=0;i<7;i++) if(ring[i]&&ring[i]!=a)lib[nl++]=ring[i];
   qsort(geo,ng,8,cmp); qsort(lib,nl,8,cmp); n++; int exp=isPentagon(a)?5:6;
   if(ng!=nl||nl!=exp||memcmp(geo,lib,ng*8)){bad++; if(bad<4)printf("BAD res %d a %llx ng %d nl %d\n",res,(unsigned long long)a,ng,nl);}
  }
  printf("res %2d n %ld bad %ld\n",res,n,bad);
 }}
