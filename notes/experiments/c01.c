#include <stdio.h>
#include <stdlib.h>
#include <stdint.h>
#include "h3api.h"
static uint64_t s=88172645463325252ULL; static inline uint64_t rnd(){s^=s<<13;s^=s>>7;s^=s<<17;return s;}
static const int PENT[12]={4,14,24,38,49,58,63,72,83,97,107,117};
static int ref(uint64_t h){ if(h>>63)return 0; if(((h>>59)&15)!=1)return 0; if((h>>56)&7)return 0; int res=(h>>52)&15; int bc=(h>>45)&127; if(bc>=122)return 0; int first=0; for(int r=1;r<=15;r++){int d=(h>>(3*(15-r)))&7; if(r<=res){ if(d==7)return 0; if(!first&&d)first=d; } else if(d!=7)return 0;} int p=0; for(int i=0;i<12;i++) if(PENT[i]==bc)p=1; if(p&&first==1)return 0; return 1;}
int main(int argc,char**argv){ long n=atol(argv[1]); long valid=0,near=0,bad=0;
 for(long t=0;t<n;t++){ uint64_t r=rnd(); int res=r&15; int bcsel=(r>>4)&7; int bc= bcsel<2?PENT[(r>>8)%12]: bcsel==2?120+((r>>8)&7): (r>>8)%128; uint64_t h=(1ULL<<59)|((uint64_t)res<<52)|((uint64_t)bc<<45); uint64_t d=rnd(); int zeros=(r>>20)&3?0:(r>>24)%16; for(int i=1;i<=15;i++){int dg; if(i<=res){dg=(d>>(3*(i-1)))&7; if(dg==7&&((r>>30)&7))dg=(d>>50)%7; if(i<=zeros)dg=0;} else {dg=7;} h|=(uint64_t)dg<<(3*(15-i));}
   int m=(r>>33)&15; if(m==0){int p=1+(r>>40)%15; h&=~(7ULL<<(3*(15-p))); h|=((r>>48)&7)<<(3*(15-p));} else if(m==1){h^=1ULL<<((r>>40)&63);} else if(m==2){h^=1ULL<<((r>>40)&63);h^=1ULL<<((r>>46)&63);} else if(m==3){h=rnd();}
   int a=isValidCell(h)!=0,b=ref(h); if(b)valid++; if(a!=b){bad++; if(bad<5)printf("MISMATCH %016llx lib %d ref %d\n",(unsigned long long)h,a,b);} }
 printf("n %ld valid %ld mismatches %ld\n",n,valid,bad);}
