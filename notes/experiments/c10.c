#include <stdio.h>
#include <stdlib.h>
#include <math.h>
#include "h3api.h"
typedef long double ld; typedef struct{ld x,y,z;}V;
static V tov(LatLng g){ld c=cosl((ld)g.lat);V v={c*cosl((ld)g.lng),c*sinl((ld)g.lng),sinl((ld)g.lat)};return v;}
static ld ang(V a,V b){V c={a.y*b.z-a.z*b.y,a.z*b.x-a.x*b.z,a.x*b.y-a.y*b.x};return atan2l(sqrtl(c.x*c.x+c.y*c.y+c.z*c.z),a.x*b.x+a.y*b.y+a.z*b.z);}
static unsigned long long s=88172645463325252ULL; static unsigned long long rnd(){s^=s<<13;s^=s>>7;s^=s<<17;return s;}
static double ur(){return (rnd()>>11)/9007199254740992.0;}
int main(){ for(int res=0;res<=15;res++){ long n=0,cntbad=0,revbad=0,three=0,invalid=0,decbad=0; ld worst=0;
 for(int t=0;t<20000;t++){H3Index a; if(t%3==0){H3Index p[12];getPentagons(res,p);H3Index r[19]={0};gridDisk(p[rnd()%12],2,r);a=r[rnd()%19]; if(!a)continue;} else {LatLng g={asin(2*ur()-1),(2*ur()-1)*M_PI};latLngToCell(&g,res,&a);}
  H3Index ring[7]={0};gridDisk(a,1,ring); for(int j=0;j<7;j++){H3Index b=ring[j]; if(!b||b==a)continue; H3Index e1,e2; if(cellsToDirectedEdge(a,b,&e1)||cellsToDirectedEdge(b,a,&e2)){invalid++;continue;} if(!isValidDirectedEdge(e1)||!isValidDirectedEdge(e2))invalid++; H3Index od[2]; directedEdgeToCells(e1,od); if(od[0]!=a||od[1]!=b)decbad++;
   CellBoundary b1,b2; directedEdgeToBoundary(e1,&b1); directedEdgeToBoundary(e2,&b2); n++; if(b1.numVerts!=b2.numVerts||b1.numVerts<2||b1.numVerts>3){cntbad++; if(cntbad<4)printf("CNT res %d %llx %llx %d %d\n",res,(unsigned long long)a,(unsigned long long)b,b1.numVerts,b2.numVerts);continue;} if(b1.numVerts==3)three++;
   for(int i=0;i<b1.numVerts;i++){ld d=ang(tov(b1.verts[i]),tov(b2.verts[b1.numVerts-1-i])); if(d>worst)worst=d; if(d>1e-12L)revbad++;}
 }}
 printf("res %2d edges %ld three-pt %ld cntbad %ld revbad %ld worst %.2Le invalid %ld decodebad %ld\n",res,n,three,cntbad,revbad,worst,invalid,decbad);}}
