#include <stdio.h>
#include <stdlib.h>
#include <math.h>
#include <quadmath.h>
#include "h3api.h"
typedef __float128 q; typedef struct{q x,y,z;}V;
static unsigned long long s=88172645463325252ULL; static unsigned long long rnd(){s^=s<<13;s^=s>>7;s^=s<<17;return s;}
static double ur(){return (rnd()>>11)/9007199254740992.0;}
static V tov(LatLng g){q c=cosq((q)g.lat);V v={c*cosq((q)g.lng),c*sinq((q)g.lng),sinq((q)g.lat)};return v;}
static V cross(V a,V b){V r={a.y*b.z-a.z*b.y,a.z*b.x-a.x*b.z,a.x*b.y-a.y*b.x};return r;}
static q dot(V a,V b){return a.x*b.x+a.y*b.y+a.z*b.z;}
static q tri(V a,V b,V c){return 2*atan2q(dot(a,cross(b,c)),1+dot(a,b)+dot(b,c)+dot(c,a));}
static q gcd(V a,V b){V c=cross(a,b);return atan2q(sqrtq(dot(c,c)),dot(a,b));}
int main(){ for(int res=0;res<=15;res++){ double worst=0,worstlen=0; H3Index wh=0; for(int t=0;t<30000;t++){H3Index a; if(t%3==0){H3Index p[12];getPentagons(res,p);H3Index r[19]={0};gridDisk(p[rnd()%12],2,r);a=r[rnd()%19]; if(!a)continue;} else {LatLng g={asin(2*ur()-1),(2*ur()-1)*M_PI}; if(t%7==0)g.lat=(t%2?1:-1)*(M_PI/2-ur()*0.01); latLngToCell(&g,res,&a);}
   double ar; cellAreaRads2(a,&ar); CellBoundary cb; cellToBoundary(a,&cb); V p[10]; for(int i=0;i<cb.numVerts;i++)p[i]=tov(cb.verts[i]); q A=0; for(int i=1;i+1<cb.numVerts;i++)A+=tri(p[0],p[i],p[i+1]); double rel=(double)fabsq((A-ar)/A); if(rel>worst){worst=rel;wh=a;}
   H3Index e[6]; originToDirectedEdges(a,e); for(int i=0;i<6;i++){ if(!e[i])continue; double len; edgeLengthRads(e[i],&len); CellBoundary eb; directedEdgeToBoundary(e[i],&eb); q L=0; for(int j=0;j+1<eb.numVerts;j++)L+=gcd(tov(eb.verts[j]),tov(eb.verts[j+1])); double rl=(double)fabsq((L-len)/L); if(rl>worstlen)worstlen=rl; } }
  printf("res %2d worst rel area err %.3e (%llx) worst rel edge length err %.3e\n",res,worst,(unsigned long long)wh,worstlen);}}
