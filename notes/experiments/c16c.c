#include <stdio.h>
#include <stdlib.h>
#include <string.h>
#include <math.h>
#include "h3api.h"
static unsigned long long s=88172645463325252ULL; static unsigned long long rnd(){s^=s<<13;s^=s>>7;s^=s<<17;return s;}
int main(int argc,char**argv){
  for(int res=0;res<=3;res++) for(int k=1;k<=2;k++){ int64_t N; getNumCells(res,&N); long tot=0,bad=0,err=0,deg=0; 
    H3Index r0[122];getRes0Cells(r0);
    for(int b=0;b<122;b++){int64_t sz;cellToChildrenSize(r0[b],res,&sz);H3Index*ch=malloc(sz*8);cellToChildren(r0[b],res,ch);
     for(int64_t i=0;i<sz;i+= (res<3?1:7)){ H3Index o=ch[i]; int64_t z; maxGridDiskSize(k,&z); H3Index*d=calloc(z,8); gridDisk(o,k,d); int n=0; double maxlat=0; for(int j=0;j<z;j++) if(d[j]){d[n++]=d[j];}
       // skip if any cell boundary vertex |lat| > 80deg or set contains pole cells
       int skip=0; double minlng=9,maxlng=-9; for(int j=0;j<n;j++){CellBoundary cb;cellToBoundary(d[j],&cb);for(int v=0;v<cb.numVerts;v++){ if(fabs(cb.verts[v].lat)>maxlat)maxlat=fabs(cb.verts[v].lat); if(cb.verts[v].lng<minlng)minlng=cb.verts[v].lng; if(cb.verts[v].lng>maxlng)maxlng=cb.verts[v].lng;}}
       // pole containment: latLngToCell of poles
       LatLng np={M_PI/2,0},sp={-M_PI/2,0}; H3Index hn,hs; latLngToCell(&np,res,&hn); latLngToCell(&sp,res,&hs); for(int j=0;j<n;j++) if(d[j]==hn||d[j]==hs)skip=1; if(skip){free(d);continue;}
       tot++; LinkedGeoPolygon out; H3Error e=cellsToLinkedMultiPolygon(d,n,&out);
       if(e){err++; if(err<=3)printf("  ERR res %d k %d o %llx maxlat %.1f lngspan %.1f\n",res,k,(unsigned long long)o,maxlat*180/M_PI,(maxlng-minlng)*180/M_PI); free(d);continue;}
       int polys=0,loops=0,dg=0; for(LinkedGeoPolygon*p=&out;p;p=p->next){polys++;for(LinkedGeoLoop*l=p->first;l;l=l->next){loops++;int c=0;for(LinkedLatLng*v=l->first;v;v=v->next)c++; if(c<3)dg=1;}}
       if(polys!=1||loops!=1){bad++; if(dg)deg++; if(bad-deg<=3&&!dg)printf("  BAD(non-degenerate) res %d k %d o %llx polys %d loops %d maxlat %.1f lngspan %.1f\n",res,k,(unsigned long long)o,polys,loops,maxlat*180/M_PI,(maxlng-minlng)*180/M_PI);} destroyLinkedMultiPolygon(&out); free(d);}
     free(ch);}
    printf("res %d k %d sets %ld bad %ld (with degenerate loop %ld) err %ld\n",res,k,tot,bad,deg,err);}
}
