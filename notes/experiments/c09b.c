#include <stdio.h>
#include <stdlib.h>
#include <math.h>
#include "h3api.h"
static unsigned long long s=88172645463325252ULL; static unsigned long long rnd(){s^=s<<13;s^=s>>7;s^=s<<17;return s;}
static double ur(){return (rnd()>>11)/9007199254740992.0;}
int main(){
 for(int res=0;res<=15;res++){ long tried=0,fwdok=0,bothok=0,bad=0,invalid=0,fwd2=0,fwd2bad=0;
  for(int t=0;t<4000;t++){H3Index o; if(t%2==0){H3Index p[12];getPentagons(res,p);H3Index r[61]={0};gridDisk(p[rnd()%12],4,r);o=r[rnd()%61]; if(!o)continue;} else {LatLng g={asin(2*ur()-1),(2*ur()-1)*M_PI};latLngToCell(&g,res,&o);}
   CoordIJ oij; if(cellToLocalIj(o,o,0,&oij))continue;
   for(int q=0;q<40;q++){int R=1+rnd()%12; CoordIJ ij={oij.i+(int)(rnd()%(2*R+1))-R,oij.j+(int)(rnd()%(2*R+1))-R}; tried++; H3Index c; H3Error e=localIjToCell(o,&ij,0,&c); if(e)continue; fwdok++; if(!isValidCell(c)||getResolution(c)!=res){invalid++; if(invalid<3)printf("INVALID res %d o %llx ij %d %d c %llx\n",res,(unsigned long long)o,ij.i,ij.j,(unsigned long long)c);continue;}
     CoordIJ back; e=cellToLocalIj(o,c,0,&back); if(e)continue; bothok++; if(back.i!=ij.i||back.j!=ij.j){bad++; if(bad<4)printf("RT-BAD res %d o %llx ij (%d,%d) -> %llx -> (%d,%d)\n",res,(unsigned long long)o,ij.i,ij.j,(unsigned long long)c,back.i,back.j);} }
   // forward direction: cells in disk
   H3Index D[61]={0}; gridDisk(o,4,D); for(int i=0;i<61;i++){ if(!D[i])continue; CoordIJ ij; if(cellToLocalIj(o,D[i],0,&ij))continue; H3Index c; H3Error e=localIjToCell(o,&ij,0,&c); if(e)continue; fwd2++; if(c!=D[i]){fwd2bad++; if(fwd2bad<4)printf("FWD-BAD res %d o %llx cell %llx ij (%d,%d) -> %llx\n",res,(unsigned long long)o,(unsigned long long)D[i],ij.i,ij.j,(unsigned long long)c);} }
  }
  printf("res %2d tried %ld ij->cell ok %ld both ok %ld RTbad %ld invalid %ld | cell->ij->cell %ld bad %ld\n",res,tried,fwdok,bothok,bad,invalid,fwd2,fwd2bad);
 }}
