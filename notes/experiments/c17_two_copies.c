#include <stdio.h>
#include <stdlib.h>
#include "h3api.h"
H3Error va_gridDisk(H3Index origin,int k,H3Index*out);
static int allocs=0,frees=0;
void*verif_malloc(size_t n){allocs++;return malloc(n);} void*verif_calloc(size_t a,size_t b){allocs++;return calloc(a,b);} void*verif_realloc(void*p,size_t n){allocs++;return realloc(p,n);} void verif_free(void*p){frees++;free(p);}
int main(){H3Index pent=0x89080000003ffffULL; H3Index a[19]={0},b[19]={0}; H3Error e1=gridDisk(pent,2,a); H3Error e2=va_gridDisk(pent,2,b); int same=1; for(int i=0;i<19;i++) if(a[i]!=b[i])same=0; printf("e1=%d e2=%d same=%d allocs=%d frees=%d\n",e1,e2,same,allocs,frees);}
