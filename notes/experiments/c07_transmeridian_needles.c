// Experiment: polygonToCells / Experimental(CENTER) vs independent point-in-polygon oracle over candidate cells
#include <stdio.h>
#include <stdlib.h>
#include <string.h>
#include <math.h>
#include "h3api.h"
static unsigned long long s=88172645463325252ULL; static unsigned long long rnd(){s^=s<<13;s^=s>>7;s^=s<<17;return s;}
static double ur(){return (rnd()>>11)/9007199254740992.0;}
static int cmp(const void*a,const void*b){H3Index x=*(H3Index*)a,y=*(H3Index*)b;return x<y?-1:x>y;}
// oracle: winding/crossing in long double with margin; returns 1 in, 0 out, -1 undecided
static int pip(const LatLng*v,int n,int trans,LatLng p,double margin){
  long double px=p.lng,py=p.lat; if(trans&&px<0)px+=2*3.141592653589793238462643383279502884L; int in=0; 
  for(int i=0;i<n;i++){long double ax=v[i].lng,ay=v[i].lat,bx=v[(i+1)%n].lng,by=v[(i+1)%n].lat; if(trans){if(ax<0)ax+=2*3.141592653589793238462643383279502884L;if(bx<0)bx+=2*3.141592653589793238462643383279502884L;}
    // distance point-segment
    long double dx=bx-ax,dy=by-ay,l2=dx*dx+dy*dy,t=l2>0?((px-ax)*dx+(py-ay)*dy)/l2:0; if(t<0)t=0;if(t>1)t=1; long double qx=ax+t*dx-px,qy=ay+t*dy-py; if(sqrtl(qx*qx+qy*qy)<margin)return -1;
    if((ay>py)!=(by>py)){long double x=ax+(py-ay)*(bx-ax)/(by-ay); if(x>px)in=!in;}
  }
  return in;
}
int main(int argc,char**argv){
  int trials=atoi(argv[1]); int mode=argc>2?atoi(argv[2]):0; // mode 1: force transmeridian
  long tot=0,legacyMiss=0,legacyExtra=0,expMiss=0,expExtra=0,und=0,nontriv=0,legacyErr=0,expErr=0,sizeViolL=0,sizeViolE=0;
  for(int t=0;t<trials;t++){
    int res=rnd()%16;
    double clat=asin(2*ur()-1)*0.9, clng=(2*ur()-1)*M_PI; if(mode==1||mode==2)clng=M_PI-0.0001*ur();
    LatLng c={clat,clng}; H3Index oc; latLngToCell(&c,res,&oc);
    double el; getHexagonEdgeLengthAvgKm(res,&el); double cellr=el/6371.0; // radians
    double R=cellr*(0.3+ur()*6); if(R>0.3)R=0.3;
    int nv=3+rnd()%8; LatLng v[16]; double a0=ur()*2*M_PI; int concave=rnd()%2;
    if(mode==2){ nv=4; double L=cellr*(1+ur()*8), W=cellr*(0.05+ur()*0.8); double ca=cos(a0),sa=sin(a0); double px[4]={-L,L,L,-L},py[4]={-W,-W,W,W}; for(int i=0;i<4;i++){double x=px[i]*ca-py[i]*sa,y=px[i]*sa+py[i]*ca; v[i].lat=clat+y; v[i].lng=clng+x/cos(clat); if(v[i].lng>M_PI)v[i].lng-=2*M_PI; if(v[i].lng<-M_PI)v[i].lng+=2*M_PI;} R=L; if(L>0.2) goto next; } else
    for(int i=0;i<nv;i++){double a=a0+2*M_PI*i/nv+ (ur()-0.5)*1.5*M_PI/nv; double rr=R*(concave?(0.25+0.75*ur()):(0.8+0.2*ur())); v[i].lat=clat+rr*sin(a); v[i].lng=clng+rr*cos(a)/cos(clat); if(v[i].lng>M_PI)v[i].lng-=2*M_PI; if(v[i].lng<-M_PI)v[i].lng+=2*M_PI; if(fabs(v[i].lat)>1.5)goto next;}
    {
    int trans=0; for(int i=0;i<nv;i++) if(fabs(v[i].lng-v[(i+1)%nv].lng)>M_PI)trans=1;
    GeoPolygon gp={{nv,v},0,NULL};
    int64_t szL=0,szE=0; H3Error e1=maxPolygonToCellsSize(&gp,res,0,&szL); H3Error e2=maxPolygonToCellsSizeExperimental(&gp,res,0,&szE);
    if(e1||e2){printf("size err %d %d\n",e1,e2);continue;}
    H3Index*L=calloc(szL,8),*E=calloc(szE+1,8);
    H3Error eL=polygonToCells(&gp,res,0,L); H3Error eE=polygonToCellsExperimental(&gp,res,0,szE,E);
    if(eL)legacyErr++; if(eE){expErr++; if(eE==14)sizeViolE++;}
    int nL=0;for(int i=0;i<szL;i++)if(L[i])L[nL++]=L[i]; qsort(L,nL,8,cmp);
    int nE=0;for(int i=0;i<szE;i++)if(E[i])E[nE++]=E[i]; qsort(E,nE,8,cmp);
    // candidates: gridDisk around centre cell with k covering R
    int k=(int)(R/cellr*1.2/1.5)+3; if(k>60)k=60; int64_t ds; maxGridDiskSize(k,&ds); H3Index*D=calloc(ds,8); gridDisk(oc,k,D);
    int exp_in=0;
    for(int i=0;i<ds;i++){ if(!D[i])continue; LatLng g; cellToLatLng(D[i],&g); int r=pip(v,nv,trans,g,1e-9); tot++; if(r<0){und++;continue;} if(r)exp_in++;
      int inL=bsearch(&D[i],L,nL,8,cmp)!=NULL, inE=bsearch(&D[i],E,nE,8,cmp)!=NULL;
      if(!eL){ if(r&&!inL){legacyMiss++; if(legacyMiss<4)printf("LEGACY MISS res %d cell %llx nv %d trans %d R/cell %.2f\n",res,(unsigned long long)D[i],nv,trans,R/cellr);} if(!r&&inL)legacyExtra++; }
      if(!eE){ if(r&&!inE){expMiss++; if(expMiss<4)printf("EXP MISS res %d cell %llx\n",res,(unsigned long long)D[i]);} if(!r&&inE)expExtra++; }
    }
    if(exp_in>0)nontriv++;
    // cells outside candidate set returned?
    free(D);free(L);free(E);
    }
    next:;
  }
  printf("trials %d nontriv %ld cand %ld undecided %ld legacyMiss %ld legacyExtra %ld expMiss %ld expExtra %ld legacyErr %ld expErr %ld(sizeViol %ld)\n",trials,nontriv,tot,und,legacyMiss,legacyExtra,expMiss,expExtra,legacyErr,expErr,sizeViolE);
}
