// Prototype of the C15 sandwich oracle (chord reading only), to learn what the tree does
#include <stdio.h>
#include <stdlib.h>
#include <string.h>
#include <math.h>
#include "h3api.h"
typedef long double ld; typedef struct{ld x,y;}P;
static unsigned long long s=88172645463325252ULL; static unsigned long long rnd(){s^=s<<13;s^=s>>7;s^=s<<17;return s;}
static double ur(){return (rnd()>>11)/9007199254740992.0;}
static int cmp(const void*a,const void*b){H3Index x=*(H3Index*)a,y=*(H3Index*)b;return x<y?-1:x>y;}
static const ld PI=3.141592653589793238462643383279502884L;
static ld CLNG; static P U(LatLng g){ld d=g.lng-CLNG; while(d>PI)d-=2*PI; while(d<=-PI)d+=2*PI; P p={CLNG+d,g.lat}; return p;}
static ld segpt(P p,P a,P b){ld dx=b.x-a.x,dy=b.y-a.y,l2=dx*dx+dy*dy,t=l2>0?((p.x-a.x)*dx+(p.y-a.y)*dy)/l2:0; if(t<0)t=0;if(t>1)t=1; ld qx=a.x+t*dx-p.x,qy=a.y+t*dy-p.y; return sqrtl(qx*qx+qy*qy);} 
static ld orient(P a,P b,P c){return (b.x-a.x)*(c.y-a.y)-(b.y-a.y)*(c.x-a.x);} 
static int properCross(P a,P b,P c,P d,ld m){ // strictly crossing with margin: endpoints at distance>m from other segment & opposite sides
  if(segpt(a,c,d)<m||segpt(b,c,d)<m||segpt(c,a,b)<m||segpt(d,a,b)<m)return 0; return (orient(a,b,c)>0)!=(orient(a,b,d)>0)&&(orient(c,d,a)>0)!=(orient(c,d,b)>0);} 
static ld segseg(P a,P b,P c,P d){ if((orient(a,b,c)>0)!=(orient(a,b,d)>0)&&(orient(c,d,a)>0)!=(orient(c,d,b)>0))return 0; ld m=segpt(a,c,d),x; x=segpt(b,c,d);if(x<m)m=x; x=segpt(c,a,b);if(x<m)m=x; x=segpt(d,a,b);if(x<m)m=x; return m;}
static int pipLoop(P*v,int n,P p,ld m){int in=0; for(int i=0;i<n;i++){P a=v[i],b=v[(i+1)%n]; if(segpt(p,a,b)<m)return -1; if((a.y>p.y)!=(b.y>p.y)){ld x=a.x+(p.y-a.y)*(b.x-a.x)/(b.y-a.y); if(x>p.x)in=!in;}} return in;}
typedef struct{P o[16];int no;P h[16];int nh;}Poly;
static int pipPoly(Poly*g,P p,ld m){int r=pipLoop(g->o,g->no,p,m); if(r<=0)return r; if(g->nh){int q=pipLoop(g->h,g->nh,p,m); if(q<0)return -1; if(q)return 0;} return 1;}
int main(int argc,char**argv){int trials=atoi(argv[1]); ld M=1e-9L; long cases=0, fullOnlyIf=0, fullIf=0, ovIf=0, ovNever=0, nest=0, sizeV=0, boundsV=0, ovIfHole=0, nontriv=0; long cnt[4]={0}; long legErr=0,legDiff=0,cenBad=0;
 for(int t=0;t<trials;t++){int res=rnd()%16; double clat=asin(2*ur()-1)*0.85, clng=(2*ur()-1)*M_PI; if(t%5==0)clng=M_PI-0.0001*ur(); LatLng c={clat,clng}; H3Index oc; latLngToCell(&c,res,&oc); CLNG=clng;
  double el; getHexagonEdgeLengthAvgKm(res,&el); double cellr=el/6371.0; double R=cellr*(0.3+ur()*5); if(R>0.25)R=0.25;
  int nv=3+rnd()%8; LatLng v[16],hv[16]; double a0=ur()*2*M_PI; int concave=rnd()%2; for(int i=0;i<nv;i++){double a=a0+2*M_PI*i/nv+(ur()-0.5)*1.5*M_PI/nv; double rr=R*(concave?(0.3+0.7*ur()):(0.8+0.2*ur())); v[i].lat=clat+rr*sin(a); v[i].lng=clng+rr*cos(a)/cos(clat); if(v[i].lng>M_PI)v[i].lng-=2*M_PI; if(v[i].lng<-M_PI)v[i].lng+=2*M_PI;}
  int nh=0; int holeKind=rnd()%3; if(holeKind){nh=3+rnd()%5; double hr=holeKind==1?R*0.2*(0.3+0.7*ur()):cellr*(0.05+0.3*ur()); if(hr>R*0.22)hr=R*0.22; double b0=ur()*2*M_PI; double ox=(ur()-0.5)*R*0.05, oy=(ur()-0.5)*R*0.05; if(holeKind==2){LatLng g; cellToLatLng(oc,&g); oy=g.lat-clat+ (ur()-0.5)*cellr*0.3; ox=(g.lng-clng)*cos(clat)+(ur()-0.5)*cellr*0.3; if(fabs(ox)>R*0.2||fabs(oy)>R*0.2){nh=0;}} for(int i=0;i<nh;i++){double a=b0-2*M_PI*i/nh; hv[i].lat=clat+oy+hr*sin(a); hv[i].lng=clng+(ox+hr*cos(a))/cos(clat); if(hv[i].lng>M_PI)hv[i].lng-=2*M_PI; if(hv[i].lng<-M_PI)hv[i].lng+=2*M_PI;}}
  GeoLoop hl={nh,hv}; GeoPolygon gp={{nv,v},nh?1:0,nh?&hl:NULL}; Poly G; G.no=nv; for(int i=0;i<nv;i++)G.o[i]=U(v[i]); G.nh=nh; for(int i=0;i<nh;i++)G.h[i]=U(hv[i]);
  H3Index*O[4]; int n[4]; int64_t mx; int bad=0; for(int m=0;m<4;m++){ if(maxPolygonToCellsSizeExperimental(&gp,res,m,&mx)){bad=1;O[m]=0;continue;} O[m]=calloc(mx+1,8); H3Error e=polygonToCellsExperimental(&gp,res,m,mx,O[m]); if(e){ if(e==E_MEMORY_BOUNDS)sizeV++; bad=1; continue;} n[m]=0; for(int i=0;i<mx;i++) if(O[m][i])O[m][n[m]++]=O[m][i]; qsort(O[m],n[m],8,cmp); cnt[m]+=n[m];}
  if(bad){for(int m=0;m<4;m++)free(O[m]);continue;} cases++; { int64_t ls; if(!maxPolygonToCellsSize(&gp,res,0,&ls)){ H3Index*L=calloc(ls,8); H3Error le=polygonToCells(&gp,res,0,L); if(le){legErr++; if(legErr<4)printf("LEGACY ERR %d res %d\n",le,res);} else { int nl=0; for(int i=0;i<ls;i++) if(L[i])L[nl++]=L[i]; qsort(L,nl,8,cmp); if(nl!=n[0]||memcmp(L,O[0],nl*8)){ // tolerate undecided cells: compute symmetric difference and test each with oracle
        for(int i=0;i<nl;i++) if(!bsearch(&L[i],O[0],n[0],8,cmp)){LatLng g;cellToLatLng(L[i],&g); if(pipPoly(&G,U(g),1e-11L)>=0){legDiff++; if(legDiff<4)printf("LEGACY-ONLY res %d cell %llx\n",res,(unsigned long long)L[i]);}}
        for(int i=0;i<n[0];i++) if(!bsearch(&O[0][i],L,nl,8,cmp)){LatLng g;cellToLatLng(O[0][i],&g); if(pipPoly(&G,U(g),1e-11L)>=0){legDiff++; if(legDiff<4){printf("EXP-ONLY res %d cell %llx nh %d legacyCount %d expCount %d\n",res,(unsigned long long)O[0][i],nh,nl,n[0]); for(int q=0;q<nv;q++)printf("  V %.17g %.17g\n",v[q].lat,v[q].lng);}}} } } free(L);} } if(n[2]>n[1])nontriv++;
  {int ord[4]={1,0,2,3}; for(int q=0;q<3;q++){int m=ord[q],m2=ord[q+1]; for(int i=0;i<n[m];i++) if(!bsearch(&O[m][i],O[m2],n[m2],8,cmp)){nest++; if(nest<4)printf("NEST mode %d not in %d cell %llx res %d\n",m,m2,(unsigned long long)O[m][i],res);}}}
  int k=(int)(R/cellr)+4; if(k>40)k=40; int64_t ds; maxGridDiskSize(k,&ds); H3Index*D=calloc(ds,8); gridDisk(oc,k,D);
  for(int i=0;i<ds;i++){ if(!D[i])continue; H3Index h=D[i]; CellBoundary cb; cellToBoundary(h,&cb); LatLng cg; cellToLatLng(h,&cg); int polar=0; for(int j=0;j<cb.numVerts;j++) if(fabs(cb.verts[j].lat)>1.4)polar=1; if(polar)continue; {int far=0; for(int j=0;j<cb.numVerts;j++){ld d=cb.verts[j].lng-CLNG; while(d>PI)d-=2*PI; while(d<=-PI)d+=2*PI; if(fabsl(d)>PI/2)far=1;} if(far)continue;} P cv[10]; for(int j=0;j<cb.numVerts;j++)cv[j]=U(cb.verts[j]); P cc=U(cg);
    int inC=bsearch(&h,O[0],n[0],8,cmp)!=NULL; {int r0=pipPoly(&G,cc,1e-11L); if(r0>=0&&r0!=inC){cenBad++; if(cenBad<4)printf("CENTER-BAD res %d cell %llx oracle %d lib %d\n",res,(unsigned long long)h,r0,inC);}} int inF=bsearch(&h,O[1],n[1],8,cmp)!=NULL, inO=bsearch(&h,O[2],n[2],8,cmp)!=NULL;
    int cin=pipPoly(&G,cc,M); int anyOut=cin==0, allIn=cin==1, anyIn=cin==1; for(int j=0;j<cb.numVerts;j++){int r=pipPoly(&G,cv[j],M); if(r==0)anyOut=1; if(r!=1)allIn=0; if(r==1)anyIn=1;}
    ld mind=1e9; int cross=0; for(int j=0;j<cb.numVerts;j++){P a=cv[j],b=cv[(j+1)%cb.numVerts]; for(int q=0;q<G.no;q++){ld d=segseg(a,b,G.o[q],G.o[(q+1)%G.no]); if(d<mind)mind=d; if(properCross(a,b,G.o[q],G.o[(q+1)%G.no],M))cross=1;} for(int q=0;q<G.nh;q++){ld d=segseg(a,b,G.h[q],G.h[(q+1)%G.nh]); if(d<mind)mind=d; if(properCross(a,b,G.h[q],G.h[(q+1)%G.nh],M))cross=1;}}
    int polyVertInCell=0, polyVertMaybe=0; for(int q=0;q<G.no;q++){int r=pipLoop(cv,cb.numVerts,G.o[q],M); if(r==1)polyVertInCell=1; if(r!=0)polyVertMaybe=1;} int holeVertInCell=0; for(int q=0;q<G.nh;q++){int r=pipLoop(cv,cb.numVerts,G.h[q],M); if(r!=0)holeVertInCell=1;}
    if(inF&&anyOut){fullOnlyIf++; if(fullOnlyIf<4)printf("FULL-ONLY-IF res %d cell %llx\n",res,(unsigned long long)h);} 
    if(allIn&&mind>M&&!holeVertInCell&&!inF){fullIf++; if(fullIf<4)printf("FULL-IF res %d cell %llx\n",res,(unsigned long long)h);} 
    int witness=anyIn||polyVertInCell||cross; if(witness&&!inO){ int holeCase=(cin==0&&G.nh&&!cross); if(holeCase)ovIfHole++; else {ovIf++; if(ovIf<6)printf("OV-IF res %d cell %llx cin %d anyIn %d pvic %d cross %d nh %d\n",res,(unsigned long long)h,cin,anyIn,polyVertInCell,cross,G.nh);} }
    if(inO&&!anyIn&&cin==0&&!polyVertMaybe&&mind>M&& !cross){ // disjoint? need all cell verts decided outside
       int allOut=1; for(int j=0;j<cb.numVerts;j++) if(pipPoly(&G,cv[j],M)!=0)allOut=0; if(allOut){ovNever++; if(ovNever<4)printf("OV-NEVER res %d cell %llx mind %.3Le\n",res,(unsigned long long)h,mind);} }
  }
  free(D); for(int m=0;m<4;m++)free(O[m]);
 }
 printf("centerBad %ld ",cenBad); printf("legacyErr %ld legacyVsExpDiff(decided) %ld\n",legErr,legDiff); printf("cases %ld nontriv %ld cells F/C/O/B: %ld %ld %ld %ld | fullOnlyIf %ld fullIf %ld ovIf %ld (hole-case %ld) ovNever %ld nest %ld sizeViol %ld\n",cases,nontriv,cnt[1],cnt[0],cnt[2],cnt[3],fullOnlyIf,fullIf,ovIf,ovIfHole,ovNever,nest,sizeV);
}
