#include <stdio.h>
#include <stdlib.h>
#include <math.h>
#include "h3api.h"
static unsigned long long s=88172645463325252ULL; static unsigned long long rnd(){s^=s<<13;s^=s>>7;s^=s<<17;return s;}
static double ur(){return (rnd()>>11)/9007199254740992.0;}
int main(int argc,char**argv){
 for(int res=0;res<=15;res++){ long pairs=0,dfail=0,dbad=0,pfail=0,pbad=0,ijfail=0,ijbad=0, longp=0,longfail=0,longbad=0;
  // cells: pentagon 3-disks + random
  for(int t=0;t<3000;t++){H3Index a; if(t<12*37){H3Index p[12];getPentagons(res,p);H3Index r[37]={0};gridDisk(p[t/37],3,r);a=r[t%37]; if(!a)continue;} else {LatLng g={asin(2*ur()-1),(2*ur()-1)*M_PI};latLngToCell(&g,res,&a);}
   H3Index ring[7]={0};gridDisk(a,1,ring);
   for(int j=0;j<7;j++){H3Index b=ring[j]; if(!b||b==a)continue; pairs++; int64_t d; H3Error e=gridDistance(a,b,&d); if(e){dfail++; if(dfail<3)printf("DFAIL res %d %llx %llx e=%d\n",res,(unsigned long long)a,(unsigned long long)b,e);} else if(d!=1){dbad++;}
     int64_t sz; e=gridPathCellsSize(a,b,&sz); if(e){pfail++;continue;} H3Index path[4]; e=gridPathCells(a,b,path); if(e){pfail++; if(pfail<3)printf("PFAIL res %d %llx %llx e=%d\n",res,(unsigned long long)a,(unsigned long long)b,e);} else if(sz!=2||path[0]!=a||path[1]!=b)pbad++;
     CoordIJ ij; e=cellToLocalIj(a,b,0,&ij); if(e){ijfail++;} else {H3Index c; e=localIjToCell(a,&ij,0,&c); if(e||c!=b){ijbad++; if(ijbad<3)printf("IJBAD res %d %llx %llx e=%d c=%llx\n",res,(unsigned long long)a,(unsigned long long)b,e,(unsigned long long)c);}}
   }
   // long path
   int k=5+rnd()%40; int64_t z; maxGridDiskSize(k,&z); if(res>=2){H3Index*D=calloc(z,8); gridDisk(a,k,D); H3Index b=D[rnd()%z]; free(D); if(b){int64_t sz; H3Error e=gridPathCellsSize(a,b,&sz); if(!e){longp++; H3Index*P=calloc(sz,8); e=gridPathCells(a,b,P); if(e)longfail++; else { int ok=P[0]==a&&P[sz-1]==b; for(int i=1;i<sz&&ok;i++){int nb;areNeighborCells(P[i-1],P[i],&nb); if(!nb)ok=0;} if(!ok){longbad++; if(longbad<3)printf("LONGBAD res %d %llx %llx\n",res,(unsigned long long)a,(unsigned long long)b);} } free(P);} }}
  }
  printf("res %2d nbrpairs %ld distFail %ld distBad %ld pathFail %ld pathBad %ld ijFail %ld ijBad %ld | long %ld fail %ld bad %ld\n",res,pairs,dfail,dbad,pfail,pbad,ijfail,ijbad,longp,longfail,longbad);
 }}
