// Prototype of C16 oracle: components, winding, min verts, area identity
#include <stdio.h>
#include <stdlib.h>
#include <string.h>
#include <math.h>
#include <quadmath.h>
#include "h3api.h"
typedef __float128 q; typedef struct{q x,y,z;}V;
static unsigned long long s=88172645463325252ULL; static unsigned long long rnd(){s^=s<<13;s^=s>>7;s^=s<<17;return s;}
static double ur(){return (rnd()>>11)/9007199254740992.0;}
static int cmp(const void*a,const void*b){H3Index x=*(H3Index*)a,y=*(H3Index*)b;return x<y?-1:x>y;}
static V tov(LatLng g){q c=cosq((q)g.lat);V v={c*cosq((q)g.lng),c*sinq((q)g.lng),sinq((q)g.lat)};return v;}
static V cross(V a,V b){V r={a.y*b.z-a.z*b.y,a.z*b.x-a.x*b.z,a.x*b.y-a.y*b.x};return r;}
static q dot(V a,V b){return a.x*b.x+a.y*b.y+a.z*b.z;}
static q tri(V a,V b,V c){return 2*atan2q(dot(a,cross(b,c)),1+dot(a,b)+dot(b,c)+dot(c,a));}
static q loopArea(V*p,int n){q A=0; for(int i=1;i+1<n;i++)A+=tri(p[0],p[i],p[i+1]); return A;}
static int find(int*u,int x){while(u[x]!=x){u[x]=u[u[x]];x=u[x];}return x;}
int main(int argc,char**argv){int trials=atoi(argv[1]); int minres=atoi(argv[2]); long cases=0,bad=0,err=0,holesSeen=0,multi=0,trans=0; double worstrel=0;
 for(int t=0;t<trials;t++){int res=minres+rnd()%(16-minres); H3Index o; int mode=t%4; double lat=asin(2*ur()-1)*0.8,lng=(2*ur()-1)*M_PI; if(mode==1)lng=M_PI-1e-4*ur(); LatLng g={lat,lng}; latLngToCell(&g,res,&o); if(mode==2){H3Index p[12];getPentagons(res,p);o=p[rnd()%12];}
  int k=1+rnd()%6; int64_t z; maxGridDiskSize(k,&z); H3Index*D=calloc(z*2,8); gridDisk(o,k,D); int n=0; double pdrop=(rnd()%3)?ur()*0.5:0; for(int i=0;i<z;i++) if(D[i]&&ur()>=pdrop)D[n++]=D[i];
  if(rnd()%3==0){ // second component nearby-ish
     H3Index far[200]={0}; int64_t z2; maxGridDiskSize(k+4,&z2); H3Index*R=calloc(6*(k+4),8); if(!gridRingUnsafe(o,k+3,R)){H3Index c2=R[rnd()%(6*(k+3))]; H3Index d2[7]={0}; gridDisk(c2,1,d2); for(int i=0;i<7;i++) if(d2[i])D[n++]=d2[i];} free(R);} 
  if(n==0){free(D);continue;} qsort(D,n,8,cmp); int u=0; for(int i=0;i<n;i++) if(i==0||D[i]!=D[i-1])D[u++]=D[i]; n=u;
  // components
  int*uf=malloc(n*sizeof(int)); for(int i=0;i<n;i++)uf[i]=i; for(int i=0;i<n;i++){H3Index r[7]={0};gridDisk(D[i],1,r);for(int j=0;j<7;j++){if(!r[j]||r[j]==D[i])continue;H3Index*p=bsearch(&r[j],D,n,8,cmp);if(p){int a=find(uf,i),b=find(uf,p-D);if(a!=b)uf[a]=b;}}} int comps=0; for(int i=0;i<n;i++) if(find(uf,i)==i)comps++; free(uf);
  q cellsum=0; for(int i=0;i<n;i++){double a;cellAreaRads2(D[i],&a);cellsum+=a;}
  LinkedGeoPolygon out; H3Error e=cellsToLinkedMultiPolygon(D,n,&out); if(e){err++; if(err<4)printf("ERR %d res %d o %llx k %d n %d\n",e,res,(unsigned long long)o,k,n); free(D);continue;}
  cases++; int polys=0,ok=1,holes=0; q asum=0; for(LinkedGeoPolygon*p=&out;p;p=p->next){polys++; int li=0; for(LinkedGeoLoop*l=p->first;l;l=l->next,li++){int c=0;for(LinkedLatLng*v=l->first;v;v=v->next)c++; if(c<3){ok=0;continue;} V*pts=malloc(c*sizeof(V)); int i=0; for(LinkedLatLng*v=l->first;v;v=v->next)pts[i++]=tov(v->vertex); q A=loopArea(pts,c); free(pts); if(li==0){ if(A<=0)ok=0; } else { holes++; if(A>=0)ok=0; } asum+=A; }}
  if(polys!=comps)ok=0; double rel=(double)fabsq((asum-cellsum)/cellsum); if(rel>worstrel&&ok)worstrel=rel; if(rel>1e-9)ok=0; if(holes)holesSeen++; if(comps>1)multi++; if(mode==1)trans++;
  if(!ok){bad++; if(bad<6)printf("BAD res %d o %llx k %d n %d polys %d comps %d holes %d rel %.3e\n",res,(unsigned long long)o,k,n,polys,comps,holes,rel);} destroyLinkedMultiPolygon(&out); free(D);}
 printf("cases %ld bad %ld err %ld withHoles %ld multiComp %ld transmeridian %ld worst rel area diff (ok cases) %.3e\n",cases,bad,err,holesSeen,multi,trans,worstrel);}
