// Experiment: gridDistance vs BFS distance over whole res r
#include <stdio.h>
#include <stdlib.h>
#include <string.h>
#include "h3api.h"
static int cmp(const void*a,const void*b){H3Index x=*(H3Index*)a,y=*(H3Index*)b;return x<y?-1:x>y;}
int main(int argc,char**argv){
  int res=atoi(argv[1]);
  int64_t n; getNumCells(res,&n);
  H3Index *cells=malloc(n*sizeof(H3Index));
  H3Index r0[122]; getRes0Cells(r0); int64_t k=0;
  for(int i=0;i<122;i++){int64_t sz;cellToChildrenSize(r0[i],res,&sz);cellToChildren(r0[i],res,cells+k);k+=sz;}
  qsort(cells,n,sizeof(H3Index),cmp);
  // adjacency
  int *adj=malloc(n*6*sizeof(int));
  for(int64_t i=0;i<n;i++){H3Index ring[7]={0};gridDisk(cells[i],1,ring);int c=0;for(int j=0;j<7;j++){if(ring[j]&&ring[j]!=cells[i]){H3Index*p=bsearch(&ring[j],cells,n,sizeof(H3Index),cmp);adj[i*6+c++]=p-cells;}}while(c<6)adj[i*6+c++]=-1;}
  int *dist=malloc(n*sizeof(int)); int *q=malloc(n*sizeof(int));
  long ok=0,bad=0,fail=0,asym=0; int step=argc>2?atoi(argv[2]):1;
  long badByD[200]={0};
  for(int64_t s=0;s<n;s+=step){
    for(int64_t i=0;i<n;i++)dist[i]=-1; int h=0,t=0;q[t++]=s;dist[s]=0;
    while(h<t){int u=q[h++];for(int j=0;j<6;j++){int v=adj[u*6+j];if(v>=0&&dist[v]<0){dist[v]=dist[u]+1;q[t++]=v;}}}
    for(int64_t i=0;i<n;i++){int64_t d;H3Error e=gridDistance(cells[s],cells[i],&d);
      if(e){fail++;continue;}
      if(d==dist[i])ok++;else{bad++; if(dist[i]<200)badByD[dist[i]]++; if(bad<=8)printf("BAD %llx %llx lib=%lld bfs=%d\n",(unsigned long long)cells[s],(unsigned long long)cells[i],(long long)d,dist[i]);}
      int64_t d2;H3Error e2=gridDistance(cells[i],cells[s],&d2); if(!e2&&d2!=d)asym++;
    }
  }
  printf("res %d ok %ld bad %ld fail %ld asym %ld\n",res,ok,bad,fail,asym);
  for(int i=0;i<200;i++)if(badByD[i])printf(" bfsd=%d bad=%ld\n",i,badByD[i]);
}
