#include <stdio.h>
#include <stdlib.h>
#include <limits.h>
#include <math.h>
#include "h3api.h"
static unsigned long long s=88172645463325252ULL; static unsigned long long rnd(){s^=s<<13;s^=s>>7;s^=s<<17;return s;}
static double ur(){return (rnd()>>11)/9007199254740992.0;}
int main(){ long ok=0,err=0,inval=0; int ext[]={INT_MAX,INT_MIN,INT_MAX-1,INT_MIN+1,INT_MAX/2,INT_MIN/2,INT_MAX/3,INT_MAX/3+1,INT_MAX/7,715827882,715827883,-715827883,1<<30,-(1<<30),0,1,-1};
 int ne=sizeof(ext)/sizeof(int);
 for(int t=0;t<2000000;t++){int res=rnd()%16; H3Index o; if(t%3==0){H3Index p[12];getPentagons(res,p);o=p[rnd()%12];} else {LatLng g={asin(2*ur()-1),(2*ur()-1)*M_PI};latLngToCell(&g,res,&o);}
  CoordIJ ij; int m=rnd()%4; ij.i= m&1? ext[rnd()%ne] : (int)(rnd()); ij.j= m&2? ext[rnd()%ne] : (int)(rnd()); if(rnd()%4==0){ij.i>>= rnd()%31; ij.j>>=rnd()%31;}
  H3Index c=0; H3Error e=localIjToCell(o,&ij,0,&c); if(e){err++;} else {ok++; if(!isValidCell(c)||getResolution(c)!=res){inval++; if(inval<4)printf("INVALID o %llx ij %d %d -> %llx\n",(unsigned long long)o,ij.i,ij.j,(unsigned long long)c);} } }
 printf("ok %ld err %ld invalid %ld\n",ok,err,inval);}
