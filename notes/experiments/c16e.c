#include <stdio.h>
#include <stdlib.h>
#include <math.h>
#include "h3api.h"
int main(){ for(int res=0;res<=15;res++){ H3Index p[12]; getPentagons(res,p); for(int i=0;i<12;i++){ LatLng g; cellToLatLng(p[i],&g); for(int k=0;k<=3;k++){int64_t z;maxGridDiskSize(k,&z);H3Index*D=calloc(z,8);gridDisk(p[i],k,D);int n=0;for(int j=0;j<z;j++)if(D[j])D[n++]=D[j]; LinkedGeoPolygon out; H3Error e=cellsToLinkedMultiPolygon(D,n,&out); int polys=0,loops=0; if(!e){for(LinkedGeoPolygon*q=&out;q;q=q->next){polys++;for(LinkedGeoLoop*l=q->first;l;l=l->next)loops++;} destroyLinkedMultiPolygon(&out);} if(e||polys!=1||loops!=1)printf("res %d pent %llx (bc %d lat %.3f lng %.3f) k %d: err %d polys %d loops %d\n",res,(unsigned long long)p[i],getBaseCellNumber(p[i]),g.lat*180/M_PI,g.lng*180/M_PI,k,e,polys,loops); free(D);} } } }
