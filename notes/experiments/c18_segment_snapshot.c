#define _GNU_SOURCE
#include <link.h>
#include <stdio.h>
#include <stdlib.h>
#include <string.h>
#include <stdint.h>
#include "h3api.h"
static uint64_t hsum; static size_t total;
static int cb(struct dl_phdr_info*info,size_t sz,void*d){ if(!strstr(info->dlpi_name,"libh3v"))return 0; for(int i=0;i<info->dlpi_phnum;i++){const ElfW(Phdr)*p=&info->dlpi_phdr[i]; if(p->p_type==PT_LOAD&&(p->p_flags&PF_W)){const unsigned char*b=(const unsigned char*)(info->dlpi_addr+p->p_vaddr); for(size_t k=0;k<p->p_memsz;k++){hsum=hsum*1099511628211ULL^b[k];} total+=p->p_memsz;}} return 0;}
static uint64_t snap(){hsum=1469598103934665603ULL;total=0;dl_iterate_phdr(cb,0);return hsum;}
int main(){uint64_t s0=snap(); size_t t0=total; LatLng g={0.6,-2.1}; H3Index h; latLngToCell(&g,9,&h); H3Index d[37]; gridDisk(h,3,d); H3Index c[37]; compactCells(d,c,37); CellBoundary cb2; cellToBoundary(h,&cb2); double a; cellAreaRads2(h,&a); LatLng v[4]={{0.6,-2.1},{0.6,-2.09},{0.61,-2.09},{0.61,-2.1}}; GeoPolygon gp={{4,v},0,0}; int64_t n; maxPolygonToCellsSizeExperimental(&gp,7,0,&n); H3Index*o=calloc(n,8); polygonToCellsExperimental(&gp,7,2,n,o); const char*e=describeH3Error(3); uint64_t s1=snap(); printf("writable bytes %zu snapshot equal %d (%s)\n",t0,s0==s1,e);}
