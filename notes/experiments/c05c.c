#include <stdio.h>
#include <stdlib.h>
#include <string.h>
#include "h3api.h"
static int cmp(const void*a,const void*b){H3Index x=*(H3Index*)a,y=*(H3Index*)b;return x<y?-1:x>y;}
int main(){ for(int res=0;res<=2;res++){ int64_t n; getNumCells(res,&n); H3Index*cells=malloc(n*8); H3Index r0[122];getRes0Cells(r0);int64_t k0=0;for(int i=0;i<122;i++){int64_t sz;cellToChildrenSize(r0[i],res,&sz);cellToChildren(r0[i],res,cells+k0);k0+=sz;} qsort(cells,n,8,cmp);
  int*adj=malloc(n*6*sizeof(int)); for(int64_t i=0;i<n;i++){H3Index ring[7]={0};gridDisk(cells[i],1,ring);int c=0;for(int j=0;j<7;j++)if(ring[j]&&ring[j]!=cells[i]){H3Index*p=bsearch(&ring[j],cells,n,8,cmp);adj[i*6+c++]=p-cells;}while(c<6)adj[i*6+c++]=-1;}
  int*dist=malloc(n*sizeof(int)),*q=malloc(n*sizeof(int)); long bad=0,runs=0; int diam=0; int step=res==2?97:1;
  for(int64_t s=0;s<n;s+=step){ for(int64_t i=0;i<n;i++)dist[i]=-1; int h=0,t=0;q[t++]=s;dist[s]=0; while(h<t){int u=q[h++];for(int j=0;j<6;j++){int v=adj[u*6+j];if(v>=0&&dist[v]<0){dist[v]=dist[u]+1;q[t++]=v;}}} int ecc=0;for(int64_t i=0;i<n;i++)if(dist[i]>ecc)ecc=dist[i]; if(ecc>diam)diam=ecc;
    int ks[4]={ecc/2,ecc-1,ecc,ecc+2}; for(int kk=0;kk<4;kk++){int k=ks[kk]; if(k<0)continue; if(res==2&&k>14)k=14; int64_t z;maxGridDiskSize(k,&z);H3Index*D=calloc(z,8);int*dd=calloc(z,sizeof(int)); H3Error e=gridDiskDistances(cells[s],k,D,dd); runs++; int ok=!e; long cnt=0; if(ok){for(int64_t i=0;i<z;i++){if(!D[i])continue;cnt++;H3Index*p=bsearch(&D[i],cells,n,8,cmp); if(!p||dist[p-cells]!=dd[i]){ok=0;break;}} long expect=0;for(int64_t i=0;i<n;i++)if(dist[i]<=k)expect++; if(cnt!=expect)ok=0;} if(!ok){bad++; if(bad<4)printf("BAD res %d origin %llx k %d e %d\n",res,(unsigned long long)cells[s],k,e);} free(D);free(dd);} }
  printf("res %d diameter %d runs %ld bad %ld\n",res,diam,runs,bad);}}
