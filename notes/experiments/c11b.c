#include <stdio.h>
#include <stdlib.h>
#include <math.h>
#include "h3api.h"
typedef long double ld; typedef struct{ld x,y,z;}V;
static V tov(LatLng g){ld c=cosl((ld)g.lat);V v={c*cosl((ld)g.lng),c*sinl((ld)g.lng),sinl((ld)g.lat)};return v;}
static ld ang(V a,V b){V c={a.y*b.z-a.z*b.y,a.z*b.x-a.x*b.z,a.x*b.y-a.y*b.x};return atan2l(sqrtl(c.x*c.x+c.y*c.y+c.z*c.z),a.x*b.x+a.y*b.y+a.z*b.z);}
static unsigned long long s=88172645463325252ULL; static unsigned long long rnd(){s^=s<<13;s^=s>>7;s^=s<<17;return s;}
static double ur(){return (rnd()>>11)/9007199254740992.0;}
int main(){ for(int res=0;res<=15;res++){ long n=0,cornerCountBad=0,posBad=0,shareBad=0,nonOwnerAccepted=0,nonOwnerTried=0; ld worst=0; double el; getHexagonEdgeLengthAvgKm(res,&el); ld cs=el/6371.0;
 for(int t=0;t<8000;t++){H3Index a; if(t%3==0){H3Index p[12];getPentagons(res,p);H3Index r[19]={0};gridDisk(p[rnd()%12],2,r);a=r[rnd()%19]; if(!a)continue;} else {LatLng g={asin(2*ur()-1),(2*ur()-1)*M_PI};latLngToCell(&g,res,&a);}
  CellBoundary A; cellToBoundary(a,&A); H3Index ring[7]={0}; gridDisk(a,1,ring); int share[10]={0}; H3Index sharer[10][2];
  for(int j=0;j<7;j++){H3Index b=ring[j]; if(!b||b==a)continue; CellBoundary B; cellToBoundary(b,&B); for(int i=0;i<A.numVerts;i++) for(int k=0;k<B.numVerts;k++) if(ang(tov(A.verts[i]),tov(B.verts[k]))<cs*1e-3){ if(share[i]<2)sharer[i][share[i]]=b; share[i]++; }}
  int nc=0, idx[10]; for(int i=0;i<A.numVerts;i++) if(share[i]==2)idx[nc++]=i; int expect=isPentagon(a)?5:6; n++; if(nc!=expect){cornerCountBad++; if(cornerCountBad<4){printf("CORNERS res %d %llx nv %d nc %d shares:",res,(unsigned long long)a,A.numVerts,nc);for(int i=0;i<A.numVerts;i++)printf(" %d",share[i]);printf("\n");} continue;}
  H3Index vs[6]; cellToVertexes(a,vs); for(int i=0;i<expect;i++){LatLng g; vertexToLatLng(vs[i],&g); ld d=ang(tov(g),tov(A.verts[idx[i]])); if(d>worst)worst=d; if(d>1e-12L){posBad++; if(posBad<4)printf("POS res %d %llx slot %d d %.3Le\n",res,(unsigned long long)a,i,d);} 
     // sharing: both other cells produce same index in some slot
     for(int q=0;q<2;q++){H3Index b=sharer[idx[i]][q]; H3Index vb[6]; cellToVertexes(b,vb); int f=0; for(int k=0;k<6;k++) if(vb[k]==vs[i])f=1; if(!f)shareBad++;}
     // non-owner encodings: name the corner through a (if a is not the owner) with each vertex num
     uint64_t owner=(vs[i]&~(15ULL<<59)&~(7ULL<<56))|(1ULL<<59); for(int q=0;q<3;q++){H3Index c= q==0?a:sharer[idx[i]][q-1]; if(c==owner)continue; for(int vn=0;vn<8;vn++){uint64_t cand=(c&~(15ULL<<59))|(4ULL<<59)|((uint64_t)vn<<56); nonOwnerTried++; if(isValidVertex(cand)){ // could be valid only if it names a different corner owned by c
             LatLng g2; vertexToLatLng(cand,&g2); if(ang(tov(g2),tov(A.verts[idx[i]]))<cs*1e-3)nonOwnerAccepted++; } }}
  }
 }
 printf("res %2d cells %ld cornerCountBad %ld posBad %ld worst %.2Le shareBad %ld nonOwner tried %ld accepted-same-corner %ld\n",res,n,cornerCountBad,posBad,worst,shareBad,nonOwnerTried,nonOwnerAccepted);}}
