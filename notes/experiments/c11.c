#include <stdio.h>
#include <stdlib.h>
#include <string.h>
#include "h3api.h"
static int cmp(const void*a,const void*b){H3Index x=*(H3Index*)a,y=*(H3Index*)b;return x<y?-1:x>y;}
int main(){ for(int res=0;res<=4;res++){ int64_t n; getNumCells(res,&n); H3Index*V=malloc(n*6*8); long m=0,inval=0; H3Index r0[122];getRes0Cells(r0);
  for(int b=0;b<122;b++){int64_t sz;cellToChildrenSize(r0[b],res,&sz);H3Index*ch=malloc(sz*8);cellToChildren(r0[b],res,ch);for(int64_t i=0;i<sz;i++){H3Index vs[6];cellToVertexes(ch[i],vs);for(int j=0;j<6;j++)if(vs[j]){V[m++]=vs[j]; if(!isValidVertex(vs[j]))inval++;}}free(ch);}
  qsort(V,m,8,cmp); long d=0,not3=0; for(long i=0;i<m;){long j=i;while(j<m&&V[j]==V[i])j++; if(j-i!=3)not3++; d++; i=j;}
  printf("res %d N %lld slots %ld distinct %ld expected %lld not3 %ld invalid %ld\n",res,(long long)n,m,d,(long long)(2*n-4),not3,inval); free(V);} }
