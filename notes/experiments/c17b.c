#include <stdio.h>
#include <stdlib.h>
#include "h3api.h"
static int allocs=0,frees=0,failAt=0;
void *test_prefix_malloc(size_t n){allocs++; if(failAt&&allocs>=failAt)return NULL; return malloc(n);} 
void *test_prefix_calloc(size_t a,size_t b){allocs++; if(failAt&&allocs>=failAt)return NULL; return calloc(a,b);} 
void *test_prefix_realloc(void*p,size_t n){allocs++; if(failAt&&allocs>=failAt)return NULL; return realloc(p,n);} 
void test_prefix_free(void*p){frees++; free(p);} 
int main(){ H3Index p[12]; getPentagons(1,p); H3Index ring[7]={0}; gridDisk(p[0],1,ring); for(int i=0;i<7;i++){ if(!ring[i]||ring[i]==p[0])continue; int out=-1; allocs=frees=0;failAt=0; H3Error e=areNeighborCells(p[0],ring[i],&out); int a0=allocs; int out2=-1; allocs=frees=0;failAt=1; H3Error e2=areNeighborCells(p[0],ring[i],&out2); printf("pent %llx nbr %llx normal e=%d out=%d allocs=%d | fail@1 e=%d out=%d allocs=%d frees=%d\n",(unsigned long long)p[0],(unsigned long long)ring[i],e,out,a0,e2,out2,allocs,frees); break;} }
