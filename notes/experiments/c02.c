// Experiment: latLngToCell(p) boundary contains p within tol; points generated next to edges/corners
#include <stdio.h>
#include <stdlib.h>
#include <math.h>
#include "h3api.h"
typedef long double ld;
typedef struct{ld x,y,z;}V;
static unsigned long long s=88172645463325252ULL; static unsigned long long rnd(){s^=s<<13;s^=s>>7;s^=s<<17;return s;}
static double ur(){return (rnd()>>11)/9007199254740992.0;}
static V tov(LatLng g){ld c=cosl((ld)g.lat);V v={c*cosl((ld)g.lng),c*sinl((ld)g.lng),sinl((ld)g.lat)};return v;}
static V cross(V a,V b){V r={a.y*b.z-a.z*b.y,a.z*b.x-a.x*b.z,a.x*b.y-a.y*b.x};return r;}
static ld dot(V a,V b){return a.x*b.x+a.y*b.y+a.z*b.z;}
static V nrm(V a){ld n=sqrtl(dot(a,a));V r={a.x/n,a.y/n,a.z/n};return r;}
static V add(V a,V b){V r={a.x+b.x,a.y+b.y,a.z+b.z};return r;}
static V scl(V a,ld k){V r={a.x*k,a.y*k,a.z*k};return r;}
static LatLng toll(V v){v=nrm(v);LatLng g={(double)asinl(v.z),(double)atan2l(v.y,v.x)};return g;}
static ld ang(V a,V b){V c=cross(a,b);return atan2l(sqrtl(dot(c,c)),dot(a,b));}
// angular distance from p to great-circle segment a-b
static ld segdist(V p,V a,V b){V n=cross(a,b);ld nn=sqrtl(dot(n,n)); if(nn<1e-30L)return ang(p,a); n=scl(n,1/nn);
  // projection of p onto plane
  ld d=dot(p,n); V q=nrm(add(p,scl(n,-d)));
  // q within arc?
  if(dot(cross(a,q),n)>=0 && dot(cross(q,b),n)>=0) return fabsl(asinl(d));
  ld da=ang(p,a),db=ang(p,b);return da<db?da:db;}
// gnomonic chart at c: returns inside (crossing number) of p in polygon
static int inside_gnomonic(V c,V*poly,int n,V p){
  // basis
  V up={0,0,1}; if(fabsl(c.z)>0.9L){up.x=1;up.z=0;} V e1=nrm(cross(up,c)),e2=cross(c,e1);
  ld px=dot(p,e1)/dot(p,c),py=dot(p,e2)/dot(p,c); int in=0;
  for(int i=0;i<n;i++){V a=poly[i],b=poly[(i+1)%n]; ld ax=dot(a,e1)/dot(a,c),ay=dot(a,e2)/dot(a,c),bx=dot(b,e1)/dot(b,c),by=dot(b,e2)/dot(b,c);
    if((ay>py)!=(by>py)){ld x=ax+(py-ay)*(bx-ax)/(by-ay); if(x>px)in=!in;}}
  return in;}
int main(int argc,char**argv){
  int trials=atoi(argv[1]); int r0=argc>2?atoi(argv[2]):0, r1=argc>3?atoi(argv[3]):15; if(argc>4) s^=strtoull(argv[4],0,10)*0x9E3779B97F4A7C15ULL; int nopole=argc>5;
  for(int res=r0;res<=r1;res++){
    ld worst=0; long viol=0,n=0,wrongres=0; LatLng worstp={0,0};
    for(int t=0;t<trials;t++){
      LatLng g0={asin(2*ur()-1),(2*ur()-1)*M_PI}; if(!nopole && t%4==0){g0.lat=(t%8?1:-1)*(M_PI/2-ur()*0.002);} H3Index h0; latLngToCell(&g0,res,&h0);
      if(t%3==0){ // pentagon neighbourhood
        H3Index pents[12]; getPentagons(res,pents); h0=pents[rnd()%12]; if(rnd()%2){H3Index ring[7]={0};gridDisk(h0,1,ring);H3Index c=ring[rnd()%7]; if(c)h0=c;} }
      CellBoundary cb; cellToBoundary(h0,&cb); int i=rnd()%cb.numVerts; V a=tov(cb.verts[i]),b=tov(cb.verts[(i+1)%cb.numVerts]); LatLng cc; cellToLatLng(h0,&cc); V c=tov(cc);
      ld tt=(rnd()%3==0)?(rnd()%2?1e-9*ur():1-1e-9*ur()):ur(); V e=nrm(add(scl(a,1-tt),scl(b,tt)));
      // offset toward/away from centre by fraction f of cell size
      ld f=powl(10,-(1+ (int)(rnd()%13)))*(rnd()%2?1:-1); if(rnd()%5==0)f=0; V p=nrm(add(e,scl(add(c,scl(e,-1)),f)));
      LatLng pg=toll(p); H3Index h; H3Error err=latLngToCell(&pg,res,&h); if(err||!isValidCell(h)||getResolution(h)!=res){wrongres++;continue;}
      V pp=tov(pg); CellBoundary rb; cellToBoundary(h,&rb); V poly[10]; for(int j=0;j<rb.numVerts;j++)poly[j]=tov(rb.verts[j]); LatLng rc; cellToLatLng(h,&rc);
      n++; if(inside_gnomonic(tov(rc),poly,rb.numVerts,pp))continue;
      ld d=1e9; for(int j=0;j<rb.numVerts;j++){ld x=segdist(pp,poly[j],poly[(j+1)%rb.numVerts]); if(x<d)d=x;}
      ld tol=fmaxl(2e-12L,4e-15L/cosl((ld)pg.lat)); if(d>worst){worst=d;worstp=pg;} if(d>tol)viol++;
    }
    printf("res %2d n %ld worst outside dist %.3Le at lat %.17g lng %.17g viol(>tol) %ld err %ld\n",res,n,worst,worstp.lat,worstp.lng,viol,wrongres);
  }
}
