#include <stdio.h>
#include <stdlib.h>
#include <math.h>
#include "h3api.h"
typedef long double ld; typedef struct{ld x,y,z;}V;
static V tov(LatLng g){ld c=cosl((ld)g.lat);V v={c*cosl((ld)g.lng),c*sinl((ld)g.lng),sinl((ld)g.lat)};return v;}
static V cross(V a,V b){V r={a.y*b.z-a.z*b.y,a.z*b.x-a.x*b.z,a.x*b.y-a.y*b.x};return r;}
static ld dot(V a,V b){return a.x*b.x+a.y*b.y+a.z*b.z;}
// signed solid angle of triangle (Van Oosterom-Strackee)
static ld tri(V a,V b,V c){ld num=dot(a,cross(b,c));ld den=1+dot(a,b)+dot(b,c)+dot(c,a);return 2*atan2l(num,den);}
static unsigned long long s=88172645463325252ULL; static unsigned long long rnd(){s^=s<<13;s^=s>>7;s^=s<<17;return s;}
static double ur(){return (rnd()>>11)/9007199254740992.0;}
int main(int argc,char**argv){int maxres=atoi(argv[1]);
 for(int res=0;res<=15;res++){ ld sum=0,sumref=0,worstrel=0; long n=0,notccw=0; H3Index r0[122];getRes0Cells(r0);
  int full=res<=maxres; long cnt=0;
  for(int b=0;b<122;b++){ int64_t sz; int cres=full?res:(res<3?res:3); cellToChildrenSize(r0[b],cres,&sz); H3Index*ch=malloc(sz*8); cellToChildren(r0[b],cres,ch);
   for(int64_t i=0;i<sz;i++){ H3Index h=ch[i]; if(!full){ // descend randomly to res
        for(int r=cres;r<res;r++){ H3Index kids[7]; int64_t ks; cellToChildrenSize(h,r+1,&ks); cellToChildren(h,r+1,kids); h=kids[rnd()%ks]; } if(i%8)continue; }
     double a; cellAreaRads2(h,&a); CellBoundary cb; cellToBoundary(h,&cb); LatLng cc; cellToLatLng(h,&cc); V c=tov(cc); ld ar=0; int ccw=1; for(int j=0;j<cb.numVerts;j++){ld t=tri(c,tov(cb.verts[j]),tov(cb.verts[(j+1)%cb.numVerts])); if(t<=0)ccw=0; ar+=t;} if(!ccw)notccw++;
     sum+=a; sumref+=ar; ld rel=fabsl(a-ar)/ar; if(rel>worstrel)worstrel=rel; n++; }
   free(ch);}
  printf("res %2d n %ld %s sum-4pi %.3Le refsum-4pi %.3Le worst rel area diff %.3Le notccw %ld\n",res,n,full?"FULL":"sample",full?(sum-4*3.141592653589793238462643383279502884L):0,full?(sumref-4*3.141592653589793238462643383279502884L):0,worstrel,notccw);
 }}
