#include <stdio.h>
#include <stdlib.h>
#include <string.h>
#include <math.h>
#include "h3api.h"
static unsigned long long s=88172645463325252ULL; static unsigned long long rnd(){s^=s<<13;s^=s>>7;s^=s<<17;return s;}
static double ur(){return (rnd()>>11)/9007199254740992.0;}
static int cmp(const void*a,const void*b){H3Index x=*(H3Index*)a,y=*(H3Index*)b;return x<y?-1:x>y;}
int main(int argc,char**argv){int trials=atoi(argv[1]); long bad=0,errs=0,nontriv=0,maxn=0;
 for(int t=0;t<trials;t++){int res=1+rnd()%15; int cap=200000; H3Index*S=malloc(cap*8); long n=0; int blocks=1+rnd()%12;
  for(int b=0;b<blocks&&n<cap-20000;b++){H3Index c; if(rnd()%4==0){H3Index p[12];getPentagons(res,p);c=p[rnd()%12]; if(rnd()%2){H3Index r[7]={0};gridDisk(c,1,r);H3Index q=r[rnd()%7];if(q)c=q;}} else {LatLng g={asin(2*ur()-1),(2*ur()-1)*M_PI};latLngToCell(&g,res,&c);}
    int up=rnd()%5; if(up>res)up=res; if(up>4)up=4; H3Index anc; cellToParent(c,res-up,&anc); int64_t sz; cellToChildrenSize(anc,res,&sz); if(n+sz>cap)continue; cellToChildren(anc,res,S+n); long m=sz; 
    int kind=rnd()%3; if(kind==1&&m>1){ // drop some
       long drop=1+rnd()%3; for(long d=0;d<drop&&m>1;d++){long i=rnd()%m; S[n+i]=S[n+m-1]; m--;} }
    else if(kind==2){ m=1; S[n]=c; }
    n+=m; }
  qsort(S,n,8,cmp); long u=0; for(long i=0;i<n;i++) if(i==0||S[i]!=S[i-1])S[u++]=S[i]; n=u; if(n>maxn)maxn=n;
  // shuffle
  for(long i=n-1;i>0;i--){long j=rnd()%(i+1);H3Index tmp=S[i];S[i]=S[j];S[j]=tmp;}
  H3Index*C=calloc(n,8); H3Error e=compactCells(S,C,n); if(e){errs++; if(errs<4)printf("ERR %d n %ld res %d\n",e,n,res); free(S);free(C);continue;}
  long nc=0; for(long i=0;i<n;i++) if(C[i])C[nc++]=C[i]; if(nc<n)nontriv++;
  int64_t us; e=uncompactCellsSize(C,nc,res,&us); int ok=(!e&&us==n); H3Index*U=calloc(n+1,8); if(ok){e=uncompactCells(C,nc,U,n,res); ok=!e; if(ok){qsort(U,n,8,cmp);qsort(S,n,8,cmp);ok=memcmp(U,S,n*8)==0;}}
  // canonical: no complete sibling sets & no ancestor relation
  if(ok){qsort(C,nc,8,cmp); for(long i=0;i<nc&&ok;i++){int r=getResolution(C[i]); if(r>0){H3Index par;cellToParent(C[i],r-1,&par); H3Index kids[7];int64_t ks;cellToChildrenSize(par,r,&ks);cellToChildren(par,r,kids);int all=1;for(int k=0;k<ks;k++) if(!bsearch(&kids[k],C,nc,8,cmp))all=0; if(all)ok=0; for(int pr=0;pr<r;pr++){H3Index a;cellToParent(C[i],pr,&a); if(bsearch(&a,C,nc,8,cmp))ok=0;}}}}
  if(!ok){bad++; if(bad<4)printf("BAD n %ld res %d\n",n,res);} free(S);free(C);free(U);}
 printf("trials %d nontriv %ld bad %ld errs %ld maxn %ld\n",trials,nontriv,bad,errs,maxn);}
