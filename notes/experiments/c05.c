#include <stdio.h>
#include <stdlib.h>
#include <string.h>
#include <math.h>
#include "h3api.h"
static unsigned long long s=88172645463325252ULL; static unsigned long long rnd(){s^=s<<13;s^=s>>7;s^=s<<17;return s;}
static int cmp(const void*a,const void*b){H3Index x=*(H3Index*)a,y=*(H3Index*)b;return x<y?-1:x>y;}
int main(){
 for(int res=1;res<=15;res+= (res<4?1:3)){ long ringOk=0,ringErr=0,ringBad=0,diskOk=0,diskErr=0,diskBad=0;
  for(int t=0;t<3000;t++){H3Index p[12];getPentagons(res,p); int K=8; int64_t z; maxGridDiskSize(K,&z); H3Index*D=calloc(z,8); gridDisk(p[rnd()%12],K,D); H3Index o=D[rnd()%z]; free(D); if(!o)continue;
   int k=1+rnd()%9; maxGridDiskSize(k,&z); H3Index*S=calloc(z,8); int*dist=calloc(z,sizeof(int)); gridDiskDistancesSafe(o,k,S,dist);
   // ring truth
   H3Index*truth=calloc(6*k,8); int nt=0; for(int i=0;i<z;i++) if(S[i]&&dist[i]==k){ if(nt<6*k)truth[nt]=S[i]; nt++; }
   H3Index*R=calloc(6*k,8); H3Error e=gridRingUnsafe(o,k,R); if(e)ringErr++; else { int n=0; for(int i=0;i<6*k;i++) if(R[i])n++; qsort(R,6*k,8,cmp); if(nt<=6*k)qsort(truth,nt,8,cmp); int ok=(n==6*k&&nt==6*k&&memcmp(R,truth,6*k*8)==0); if(ok)ringOk++; else {ringBad++; if(ringBad<4)printf("RINGBAD res %d o %llx k %d n %d truth %d\n",res,(unsigned long long)o,k,n,nt);} }
   H3Index*U=calloc(z,8); int*ud=calloc(z,sizeof(int)); e=gridDiskDistancesUnsafe(o,k,U,ud); if(e)diskErr++; else { int ok=1; for(int i=0;i<z&&ok;i++){ if(!U[i]){ok=0;break;} int f=-1; for(int j=0;j<z;j++) if(S[j]==U[i]){f=j;break;} if(f<0||dist[f]!=ud[i])ok=0; if(i>0&&ud[i]<ud[i-1])ok=0; } if(ok)diskOk++; else {diskBad++; if(diskBad<4)printf("DISKBAD res %d o %llx k %d\n",res,(unsigned long long)o,k);} }
   free(S);free(dist);free(truth);free(R);free(U);free(ud);
  }
  printf("res %2d ring ok %ld err %ld BAD %ld | diskUnsafe ok %ld err %ld BAD %ld\n",res,ringOk,ringErr,ringBad,diskOk,diskErr,diskBad);
 }}
