#include <stdio.h>
#include <stdlib.h>
#include <math.h>
#include <quadmath.h>
#include "h3api.h"
typedef __float128 q; typedef struct{q x,y,z;}V;
static V tov(LatLng g){q c=cosq((q)g.lat);V v={c*cosq((q)g.lng),c*sinq((q)g.lng),sinq((q)g.lat)};return v;}
static V cross(V a,V b){V r={a.y*b.z-a.z*b.y,a.z*b.x-a.x*b.z,a.x*b.y-a.y*b.x};return r;}
static q dot(V a,V b){return a.x*b.x+a.y*b.y+a.z*b.z;}
static q tri(V a,V b,V c){return 2*atan2q(dot(a,cross(b,c)),1+dot(a,b)+dot(b,c)+dot(c,a));}
int main(){H3Index o=0x8e7e00000000007ULL; H3Index D[7]={0}; gridDisk(o,1,D); H3Index C[6]; int m=0; for(int i=0;i<7;i++) if(D[i])C[m++]=D[i];
 for(int mask=1;mask<(1<<m);mask++){H3Index S[6];int n=0;q cs=0;for(int i=0;i<m;i++) if(mask>>i&1){S[n++]=C[i];double a;cellAreaRads2(C[i],&a);cs+=a;} LinkedGeoPolygon out; if(cellsToLinkedMultiPolygon(S,n,&out)){printf("mask %d err\n",mask);continue;} q as=0; int polys=0,nv=0; for(LinkedGeoPolygon*p=&out;p;p=p->next){polys++;for(LinkedGeoLoop*l=p->first;l;l=l->next){int c=0;for(LinkedLatLng*v=l->first;v;v=v->next)c++; V*pts=malloc(c*sizeof(V));int i=0;for(LinkedLatLng*v=l->first;v;v=v->next)pts[i++]=tov(v->vertex); for(int j=1;j+1<c;j++)as+=tri(pts[0],pts[j],pts[j+1]); nv+=c; free(pts);}} double rel=(double)((as-cs)/cs); if(fabs(rel)>1e-12)printf("mask %02x n %d polys %d outlineVerts %d rel %.3e\n",mask,n,polys,nv,rel); destroyLinkedMultiPolygon(&out);} }
