#include <stdio.h>
#include <stdlib.h>
#include <math.h>
#include "h3api.h"
typedef long double ld; typedef struct{ld x,y,z;}V;
static V tov(LatLng g){ld c=cosl((ld)g.lat);V v={c*cosl((ld)g.lng),c*sinl((ld)g.lng),sinl((ld)g.lat)};return v;}
static ld ang(V a,V b){V c={a.y*b.z-a.z*b.y,a.z*b.x-a.x*b.z,a.x*b.y-a.y*b.x};return atan2l(sqrtl(c.x*c.x+c.y*c.y+c.z*c.z),a.x*b.x+a.y*b.y+a.z*b.z);}
static unsigned long long s=88172645463325252ULL; static unsigned long long rnd(){s^=s<<13;s^=s>>7;s^=s<<17;return s;}
static double ur(){return (rnd()>>11)/9007199254740992.0;}
int main(){ ld worst=0,worstratio=0; long n=0; H3Index wh=0; int wc=0;
 for(int t=0;t<3000000;t++){int res=rnd()%16; H3Index a; int m=t%4; if(m==0){H3Index p[12];getPentagons(res,p);H3Index r[19]={0};gridDisk(p[rnd()%12],2,r);a=r[rnd()%19]; if(!a)continue;} else if(m==1){LatLng g={(t%8<4?1:-1)*(M_PI/2-ur()*0.003),(2*ur()-1)*M_PI};latLngToCell(&g,res,&a);} else {LatLng g={asin(2*ur()-1),(2*ur()-1)*M_PI};latLngToCell(&g,res,&a);}
  int c=res+rnd()%(16-res); H3Index ch; cellToCenterChild(a,c,&ch); LatLng g1,g2; cellToLatLng(a,&g1); cellToLatLng(ch,&g2); ld d=ang(tov(g1),tov(g2)); ld tol=fmaxl(2e-12L,4e-15L/cosl((ld)g1.lat)); n++; if(d/tol>worstratio){worstratio=d/tol;worst=d;wh=a;wc=c;} }
 printf("n %ld worst dist %.3Le ratio to tol %.3Lf cell %llx childRes %d\n",n,worst,worstratio,(unsigned long long)wh,wc);}
