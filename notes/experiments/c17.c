#include <stdio.h>
#include <stdlib.h>
#include <string.h>
#include "h3api.h"
static int allocs=0,frees=0,failAt=0; 
static void* gate(void*p){return p;}
void *test_prefix_malloc(size_t n){allocs++; if(failAt&&allocs>=failAt)return NULL; return malloc(n);} 
void *test_prefix_calloc(size_t a,size_t b){allocs++; if(failAt&&allocs>=failAt)return NULL; return calloc(a,b);} 
void *test_prefix_realloc(void*p,size_t n){allocs++; if(failAt&&allocs>=failAt)return NULL; return realloc(p,n);} 
void test_prefix_free(void*p){frees++; free(p);} 
int main(){
  H3Index pent=0x89080000003ffff; H3Index ring[7]={0}; failAt=0; gridDisk(pent,1,ring);
  H3Index nb=0; for(int i=0;i<7;i++) if(ring[i]&&ring[i]!=pent){nb=ring[i];break;}
  // neighbors of pent that are not siblings: pick each
  for(int i=0;i<7;i++){ if(!ring[i]||ring[i]==pent)continue; int out=-1; allocs=frees=0; failAt=0; H3Error e=areNeighborCells(pent,ring[i],&out); int a0=allocs; allocs=frees=0; failAt=1; int out2=-1; H3Error e2=areNeighborCells(pent,ring[i],&out2); printf("nbr %llx: normal e=%d out=%d allocs=%d | fail@1 e=%d out=%d\n",(unsigned long long)ring[i],e,out,a0,e2,out2);}
  // polygonToCells around pentagon
  LatLng c; cellToLatLng(pent,&c); double r=0.00003; LatLng v[4]={{c.lat-r,c.lng-r},{c.lat-r,c.lng+r},{c.lat+r,c.lng+r},{c.lat+r,c.lng-r}}; GeoPolygon gp={{4,v},0,NULL}; int64_t sz; maxPolygonToCellsSize(&gp,9,0,&sz); H3Index*o=calloc(sz,8);
  failAt=0;allocs=frees=0; H3Error e=polygonToCells(&gp,9,0,o); int n=0;for(int i=0;i<sz;i++)if(o[i])n++; int total=allocs; printf("polygonToCells normal e=%d n=%d allocs=%d frees=%d\n",e,n,allocs,frees);
  for(int f=1;f<=total;f++){memset(o,0,sz*8);allocs=frees=0;failAt=f;e=polygonToCells(&gp,9,0,o);n=0;for(int i=0;i<sz;i++)if(o[i])n++;printf(" fail@%d e=%d n=%d allocs=%d frees=%d\n",f,e,n,allocs,frees);} 
}
