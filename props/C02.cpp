// C02 — latLngToCell returns the cell whose boundary contains the point
#include "gen.hpp"
#include "geoq.hpp"
using namespace vh;
using gq::Q;

struct Case {
    int kind = 0;  // 0 canonical-range point; 1 arbitrary finite doubles; 2 must-reject (bad res and/or non-finite)
    double lat = 0, lng = 0;
    int res = 0;
    int cls = 0;  // generator arm (classification only)
};
static const char *CLS[] = {"uniform", "edge-near", "corner-near", "ico-edge", "ico-vertex/pentagon", "pole", "antimeridian", "outer-lng-range", "face-centre", "enumerated"};
static std::string ser(const Case &c) {
    uint64_t a, b;
    memcpy(&a, &c.lat, 8);
    memcpy(&b, &c.lng, 8);
    return fmt("kind=%d res=%d cls=%d latbits=%016llx lngbits=%016llx lat=%.17g lng=%.17g", c.kind, c.res, c.cls, (unsigned long long)a, (unsigned long long)b, c.lat, c.lng);
}
static bool deser(const std::string &s, Case &c) {
    unsigned long long a, b;
    int n = sscanf(s.c_str(), "kind=%d res=%d cls=%d latbits=%llx lngbits=%llx", &c.kind, &c.res, &c.cls, &a, &b);
    if (n < 5) return false;
    uint64_t aa = a, bb = b;
    memcpy(&c.lat, &aa, 8);
    memcpy(&c.lng, &bb, 8);
    return true;
}

static void check(const Case &c) {
    LatLng g = {c.lat, c.lng};
    const H3Index SENT = 0x5EA7BEEF5EA7BEEFULL;
    H3Index h = SENT;
    H3Error e = latLngToCell(&g, c.res, &h);
    bool badres = c.res < 0 || c.res > 15;
    bool nonfinite = !std::isfinite(c.lat) || !std::isfinite(c.lng);
    if (badres || nonfinite) {
        COUNT(badres ? (nonfinite ? "reject.both" : "reject.res") : "reject.nonfinite");
        NONTRIVIAL();
        if (badres && nonfinite) CHECK(e == E_RES_DOMAIN || e == E_LATLNG_DOMAIN, "reject-code", "latLngToCell(bad res %d, non-finite) returned %u", c.res, e);
        else if (badres) CHECK(e == E_RES_DOMAIN, "reject-code", "latLngToCell(res %d) returned %u, expected E_RES_DOMAIN", c.res, e);
        else CHECK(e == E_LATLNG_DOMAIN, "reject-code", "latLngToCell(non-finite coordinate) returned %u, expected E_LATLNG_DOMAIN", e);
        CHECK(h == SENT, "reject-index", "latLngToCell failed but wrote an index");
        return;
    }
    CHECK(e == E_SUCCESS, "code", "latLngToCell(%.17g, %.17g, %d) failed with %u", c.lat, c.lng, c.res, e);
    CHECK(ref::valid_cell(h), "invalid", "latLngToCell returned %016llx which is not a valid cell", (unsigned long long)h);
    CHECK(ref::res_of(h) == c.res, "res", "latLngToCell returned a cell of resolution %d, asked for %d", ref::res_of(h), c.res);
    bool canonical = fabs(c.lat) <= gen::PI / 2 && fabs(c.lng) <= 2 * gen::PI;
    if (!canonical) {
        COUNT("finite.outside_canonical_range");
        NONTRIVIAL();
        return;
    }
    CellBoundary cb;
    LatLng cc;
    CHECK(cellToBoundary(h, &cb) == E_SUCCESS && cellToLatLng(h, &cc) == E_SUCCESS, "geom", "cellToBoundary/cellToLatLng failed on the returned cell");
    gq::V p = gq::fromLL(c.lat, c.lng), ctr = gq::fromLL(cc.lat, cc.lng);
    std::vector<gq::V> poly;
    for (int i = 0; i < cb.numVerts; i++) poly.push_back(gq::fromLL(cb.verts[i].lat, cb.verts[i].lng));
    Q tol = fmaxq(2e-12Q, 4e-15Q / cosq((Q)c.lat));
    Q dist = gq::distToBoundary(poly, p);
    bool in = gq::insideGnomonic(ctr, poly, p);
    // relative position for classification: distance to the boundary in units of the centre-boundary distance
    Q scale = gq::angle(ctr, poly[0]);
    double rel = (double)(dist / scale);
    if (in) {
        if (rel < 1e-3) { NONTRIVIAL(); COUNT("inside.within_1e-3_of_edge"); }
        if (rel < 1e-6) COUNT("inside.within_1e-6_of_edge");
        if (rel < 1e-9) COUNT("inside.within_1e-9_of_edge");
    } else {
        NONTRIVIAL();
        COUNT("outside_by_rounding(within tolerance)");
        WORST("outside distance / tolerance", (double)(dist / tol));
        if (fabs(c.lat) < 1.5) WORST("outside distance rad (non-polar)", (double)dist);
        CHECK(dist <= tol, "outside", "point (%.17g, %.17g) res %d -> %016llx, but the point is %.3e rad outside its boundary (tolerance %.3e)", c.lat, c.lng, c.res, (unsigned long long)h, (double)dist, (double)tol);
    }
    if (c.cls >= 3 && c.cls <= 8) NONTRIVIAL();
    {
        static Counter *cl[10] = {nullptr};
        static std::string names[10];
        int k = c.cls < 0 || c.cls > 9 ? 0 : c.cls;
        if (!cl[k]) { names[k] = std::string("arm.") + CLS[k]; cl[k] = new Counter(names[k].c_str()); }
        count_hit(*cl[k]);
    }
    if (ref::is_pentagon(h)) COUNT("returned.pentagon");
    if (cb.numVerts > 6 || (cb.numVerts == 6 && false)) COUNT("returned.cell_with_distortion_vertices");
    if (c.res >= 13) COUNT("res>=13");
}

// point next to an edge or corner of a cell: computed in long double at draw time, stored as doubles
static LatLng edgeNear(H3Index h0, bool corner, int &cls) {
    CellBoundary cb;
    LatLng cc;
    cellToBoundary(h0, &cb);
    cellToLatLng(h0, &cc);
    int i = ri(0, cb.numVerts - 1);
    auto V = [](LatLng g) { long double c = cosl(g.lat); struct { long double x, y, z; } v = {c * cosl(g.lng), c * sinl(g.lng), sinl(g.lat)}; return v; };
    auto a = V(cb.verts[i]), b = V(cb.verts[(i + 1) % cb.numVerts]), ct = V(cc);
    long double t = corner ? (ri(0, 1) ? 1e-9L * runit() : 1 - 1e-9L * runit()) : runit();
    if (corner && rpick({3, 1}) == 1) t = ri(0, 1) ? 0.0L : 1.0L;
    long double ex = a.x * (1 - t) + b.x * t, ey = a.y * (1 - t) + b.y * t, ez = a.z * (1 - t) + b.z * t;
    long double n = sqrtl(ex * ex + ey * ey + ez * ez);
    ex /= n; ey /= n; ez /= n;
    int k = ri(1, 13);
    long double f = powl(10.0L, -k) * (ri(0, 1) ? 1 : -1) * (long double)(0.5 + runit());
    if (rpick({5, 1}) == 1) f = 0;
    long double px = ex + (ct.x - ex) * f, py = ey + (ct.y - ey) * f, pz = ez + (ct.z - ez) * f;
    n = sqrtl(px * px + py * py + pz * pz);
    cls = corner ? 2 : 1;
    return {(double)asinl(pz / n), (double)atan2l(py, px)};
}

// finite doubles at which naive arithmetic (sums, products, squares, casts) overflows, underflows or loses the sign
static const double SPECIAL_FINITE[] = {0.0, -0.0, 2.2250738585072014e-308, -2.2250738585072014e-308, 4.9406564584124654e-324, -4.9406564584124654e-324,
                                        1.0, -1.0, 1.5707963267948966, -1.5707963267948966, 3.141592653589793, -3.141592653589793,
                                        6.283185307179586, -6.283185307179586, 1e10, -1e10, 9.2e18, -9.2e18, 1e154, -1e154, 1.4e154, -1.4e154, 1e155, -1e155,
                                        1e300, -1e300, 8.99e307, -8.99e307, 1e308, -1e308, 1.7976931348623157e308, -1.7976931348623157e308};
static const int NSPECIAL = (int)(sizeof(SPECIAL_FINITE) / sizeof(double));

static Case draw() {
    Case c;
    c.kind = rpick({12, 1, 1});
    c.res = ri(0, 15);
    if (c.kind == 0) {
        int arm = rpick({2, 6, 3, 3, 3, 2, 2, 1, 1});
        c.cls = arm;
        LatLng p = {0, 0};
        switch (arm) {
            case 0: p = gen::pointUniform(); break;
            case 1: case 2: {
                gen::GCell g = gen::cellRes(c.res, {2, 2, 4, 4, 1, 1, 1, 1, 1});
                p = edgeNear(g.h, arm == 2, c.cls);
                break;
            }
            case 3: p = gen::pointFaceEdge(c.res); break;
            case 4: {  // around a pentagon: edge-near on the pentagon or one of its neighbours
                H3Index pent = gen::cellPentDisk(c.res, 2);
                int dummy;
                p = edgeNear(pent, ri(0, 2) == 0, dummy);
                break;
            }
            case 5: {
                int k = ri(0, 17);
                double d = k == 0 ? 0.0 : k == 17 ? runit() * 0.002 : std::pow(10.0, -k) * (0.5 + runit());
                p.lat = (ri(0, 1) ? 1 : -1) * (gen::PI / 2 - d);
                if (p.lat > gen::PI / 2) p.lat = gen::PI / 2;
                if (p.lat < -gen::PI / 2) p.lat = -gen::PI / 2;
                p.lng = (2 * runit() - 1) * gen::PI;
                break;
            }
            case 6: {
                int k = ri(0, 17);
                double d = k == 0 ? 0.0 : std::pow(10.0, -k) * (0.5 + runit());
                p.lng = (ri(0, 1) ? 1 : -1) * (gen::PI - d);
                p.lat = std::asin(2 * runit() - 1);
                break;
            }
            case 7: {  // longitudes in (pi, 2pi] and [-2pi, -pi): same point as the wrapped one, still must be contained
                LatLng q = rpick({1, 1}) ? gen::pointFaceEdge(c.res) : gen::pointUniform();
                p.lat = q.lat;
                p.lng = q.lng > 0 ? q.lng - 2 * gen::PI : q.lng + 2 * gen::PI;
                if (rpick({8, 1}) == 1) p.lng = ri(0, 1) ? 2 * gen::PI : -2 * gen::PI;
                break;
            }
            default: p = gen::pointFaceCentre(c.res); break;
        }
        c.lat = p.lat;
        c.lng = p.lng;
        if (c.lat > gen::PI / 2) c.lat = gen::PI / 2;
        if (c.lat < -gen::PI / 2) c.lat = -gen::PI / 2;
    } else if (c.kind == 1) {
        auto anyFinite = [&]() {
            int m = rpick({2, 2, 1, 1, 1, 2});
            double v;
            if (m == 5) return SPECIAL_FINITE[ri(0, NSPECIAL - 1)];
            if (m == 0) { uint64_t b = r64(); memcpy(&v, &b, 8); if (!std::isfinite(v)) v = 1.5; return v; }
            if (m == 1) return (2 * runit() - 1) * 100.0;
            if (m == 2) return (ri(0, 1) ? 1 : -1) * std::pow(10.0, ri(1, 308));
            if (m == 3) return (ri(0, 1) ? 1 : -1) * std::pow(10.0, -ri(300, 323));
            return (double)ri(-7, 7) * gen::PI / 2;
        };
        c.lat = anyFinite();
        c.lng = anyFinite();
    } else {
        int m = rpick({1, 1, 1});
        static const int BADRES[] = {INT32_MIN, -1, 16, INT32_MAX, -2, 17, 255, -16};
        static const double NF[] = {NAN, INFINITY, -INFINITY};
        c.lat = (2 * runit() - 1) * 1.5;
        c.lng = (2 * runit() - 1) * 3.1;
        if (m == 0 || m == 2) c.res = BADRES[ri(0, 7)];
        if (m == 1 || m == 2) {
            int w = ri(0, 2);
            if (w == 0 || w == 2) c.lat = NF[ri(0, 2)];
            if (w == 1 || w == 2) c.lng = NF[ri(0, 2)];
        }
    }
    return c;
}

static void enumerate(const std::string &tier, int shard, int nshards, const std::function<void(const Case &)> &emit) {
    // deterministic stratum: every boundary vertex and every edge midpoint of every pentagon and every pentagon neighbour
    // at all 16 resolutions, offset inward/outward by 0 and +-1e-k (k = 3, 6, 9, 12) of the centre distance
    long idx = 0;
    Case c;
    c.kind = 0;
    c.cls = 9;
    for (int r = 0; r <= 15; r++) {
        H3Index p[12];
        getPentagons(r, p);
        for (int i = 0; i < 12; i++) {
            if ((idx++ % nshards) != shard) continue;
            H3Index disk[7] = {0};
            gridDisk(p[i], 1, disk);
            for (H3Index h : disk) {
                if (!h) continue;
                CellBoundary cb;
                LatLng cc;
                cellToBoundary(h, &cb);
                cellToLatLng(h, &cc);
                gq::V ct = gq::fromLL(cc.lat, cc.lng);
                for (int v = 0; v < cb.numVerts; v++)
                    for (int mid = 0; mid < 2; mid++) {
                        gq::V a = gq::fromLL(cb.verts[v].lat, cb.verts[v].lng), b = gq::fromLL(cb.verts[(v + 1) % cb.numVerts].lat, cb.verts[(v + 1) % cb.numVerts].lng);
                        gq::V e = mid ? gq::nrm(gq::add(a, b)) : a;
                        for (int k : {0, 3, 6, 9, 12})
                            for (int sgn : {1, -1}) {
                                if (k == 0 && sgn < 0) continue;
                                Q f = k == 0 ? 0 : sgn * powq(10, -k);
                                gq::V q = gq::nrm(gq::add(e, gq::scl(gq::sub(ct, e), f)));
                                gq::toLL(q, c.lat, c.lng);
                                c.res = r;
                                emit(c);
                            }
                    }
            }
        }
    }
    // every ordered pair of special finite doubles (overflow / underflow / sign traps of naive arithmetic) at three resolutions
    c.kind = 1;
    c.cls = 0;
    for (int a = 0; a < NSPECIAL; a++)
        for (int b = 0; b < NSPECIAL; b++) {
            if ((idx++ % nshards) != shard) continue;
            for (int r : {0, 7, 15}) {
                c.lat = SPECIAL_FINITE[a];
                c.lng = SPECIAL_FINITE[b];
                c.res = r;
                emit(c);
            }
        }
    (void)tier;
}

int main(int argc, char **argv) {
    Harness<Case> h;
    h.id = "C02";
    h.draw = draw;
    h.check = check;
    h.enumerate = enumerate;
    h.ser = ser;
    h.deser = deser;
    h.fp = [](const Case &c) { uint64_t a, b; memcpy(&a, &c.lat, 8); memcpy(&b, &c.lng, 8); return mix64(mix64(a, b), (uint64_t)(uint32_t)c.res + 100); };
    return harness_main(argc, argv, h);
}
