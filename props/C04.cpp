// C04 — parent/children form an exact tree partition of the cells
#include "gen.hpp"
using namespace vh;

struct Case {
    int kind = 0;  // 0 full children enumeration (h, cres); 1 deep sample (h, cres, q); 2 cellToParent(h, p) incl. errors;
                   // 3 converse: h is among the children of each ancestor; 4 childrenSize/centerChild error clauses (h, p)
    uint64_t h = 0;
    int p = 0;
    uint64_t q = 0;
};
static std::string ser(const Case &c) { return fmt("kind=%d h=%016llx p=%d q=%llu", c.kind, (unsigned long long)c.h, c.p, (unsigned long long)c.q); }
static bool deser(const std::string &s, Case &c) {
    unsigned long long h, q = 0;
    int n = sscanf(s.c_str(), "kind=%d h=%llx p=%d q=%llu", &c.kind, &h, &c.p, &q);
    c.h = h;
    c.q = q;
    return n >= 3;
}

static long double angDist(LatLng a, LatLng b) {
    long double ax = cosl(a.lat) * cosl(a.lng), ay = cosl(a.lat) * sinl(a.lng), az = sinl(a.lat);
    long double bx = cosl(b.lat) * cosl(b.lng), by = cosl(b.lat) * sinl(b.lng), bz = sinl(b.lat);
    long double cx = ay * bz - az * by, cy = az * bx - ax * bz, cz = ax * by - ay * bx;
    return atan2l(sqrtl(cx * cx + cy * cy + cz * cz), ax * bx + ay * by + az * bz);
}

static int MAXFULL = 6;

static void classify(uint64_t h, int n) {
    if (ref::is_pentagon(h)) COUNT("parent.pentagon");
    else if (ref::is_pent_bc(ref::unpack(h).bc)) {
        // below a pentagon: leading zeros then a non-zero digit
        ref::Idx x = ref::unpack(h);
        int lead = 0;
        while (lead < x.res && x.d[lead + 1] == 0) lead++;
        if (lead > 0) COUNT("parent.pentagon_descendant_leaving_centre_chain");
        else COUNT("parent.pentagon_base_cell_other");
    } else COUNT("parent.hexagon_base");
    if (n >= 4) COUNT("depth>=4");
}

// kind 5: an index one rule away from valid (deleted sub-sequence under a pentagon, a 7 inside the resolution, ...). The partition clause in the
// library's own terms: whatever isValidCell accepts must be listed among the children of its parent — an accepted index that no parent
// lists is a cell outside the tree.
static void checkNearValid(const Case &c) {
    uint64_t h = c.h;
    COUNT("near_valid");
    if (!isValidCell(h)) return;
    if (ref::valid_cell(h)) { DISCARD(); return; }
    NONTRIVIAL();
    int res = ref::res_of(h);
    if (res == 0 || res > 15) { FAIL("valid-not-child", "isValidCell accepts %016llx, which is not one of the 122 resolution-0 cells / has no parent", (unsigned long long)h); return; }
    H3Index par = 0;
    CHECK(cellToParent(h, res - 1, &par) == E_SUCCESS, "parent", "cellToParent failed on an index isValidCell accepts");
    int64_t n = 0;
    CHECK(cellToChildrenSize(par, res, &n) == E_SUCCESS && n >= 1 && n <= 7, "size", "cellToChildrenSize wrong for the parent of an accepted index");
    Guarded<H3Index> out((size_t)n);
    CHECK(cellToChildren(par, res, out.p()) == E_SUCCESS && out.intact(), "children", "cellToChildren failed");
    for (int64_t i = 0; i < n; i++) if (out[(size_t)i] == h) return;
    FAIL("valid-not-child", "isValidCell accepts %016llx but its parent %016llx does not list it among its %lld children: a cell outside the tree", (unsigned long long)h, (unsigned long long)par, (long long)n);
}

static void check(const Case &c) {
    uint64_t h = c.h;
    int res = ref::res_of(h);
    if (c.kind == 5) { checkNearValid(c); return; }
    if (!ref::valid_cell(h)) { DISCARD(); return; }
    if (c.kind == 0 || c.kind == 1) {
        int cres = c.p;
        int n = cres - res;
        int64_t want = ref::children_count(h, cres), got = -1;
        H3Error e = cellToChildrenSize(h, cres, &got);
        CHECK(e == E_SUCCESS && got == want, "size", "cellToChildrenSize(%016llx,%d) -> err %u size %lld, expected %lld", (unsigned long long)h, cres, e, (long long)got, (long long)want);
        H3Index cc = 0;
        e = cellToCenterChild(h, cres, &cc);
        CHECK(e == E_SUCCESS && cc == ref::center_child(h, cres), "center", "cellToCenterChild(%016llx,%d) -> err %u %016llx", (unsigned long long)h, cres, e, (unsigned long long)cc);
        LatLng a, b;
        CHECK(cellToLatLng(h, &a) == E_SUCCESS && cellToLatLng(cc, &b) == E_SUCCESS, "center", "cellToLatLng failed");
        long double d = angDist(a, b), tol = fmaxl(2e-12L, 4e-15L / cosl(a.lat));
        WORST("centre-child distance / tolerance", (double)(d / tol));
        CHECK(d <= tol, "center-coincide", "centre child %016llx centre is %.3Le rad from %016llx centre (tol %.3Le)", (unsigned long long)cc, d, (unsigned long long)h, tol);
        if (n > 0) NONTRIVIAL();
        classify(h, n);
        if (c.kind == 0) {
            COUNT("children.full_enumeration");
            Guarded<H3Index> out((size_t)want);
            e = cellToChildren(h, cres, out.p());
            CHECK(out.intact(), "guard", "cellToChildren wrote outside its %lld-slot buffer", (long long)want);
            CHECK(e == E_SUCCESS, "children", "cellToChildren(%016llx,%d) -> err %u", (unsigned long long)h, cres, e);
            for (int64_t i = 0; i < want; i++) {
                H3Index x = out[(size_t)i];
                CHECK(ref::valid_cell(x), "children-valid", "child %lld = %016llx invalid", (long long)i, (unsigned long long)x);
                CHECK(ref::res_of(x) == cres, "children-res", "child %016llx has wrong resolution", (unsigned long long)x);
                CHECK(i == 0 || out[(size_t)i - 1] < x, "children-order", "children not strictly increasing at %lld", (long long)i);
                H3Index par = 0;
                CHECK(cellToParent(x, res, &par) == E_SUCCESS && par == h, "children-parent", "cellToParent(child %016llx) = %016llx, not %016llx", (unsigned long long)x, (unsigned long long)par, (unsigned long long)h);
                CHECK(ref::parent(x, res) == h, "children-parent", "child %016llx is not below %016llx", (unsigned long long)x, (unsigned long long)h);
            }
            CHECK(out[0] == cc, "children-first", "first child is not the centre child");
        } else {
            COUNT("children.deep_sample");
            // sample of the (reference) children: each has h as parent through the library
            uint64_t s = c.q;
            for (int t = 0; t < 24; t++) {
                int64_t pos = t == 0 ? 0 : t == 1 ? want - 1 : (int64_t)(splitmix(s) % (uint64_t)want);
                uint64_t x = ref::child_at(h, cres, pos);
                H3Index par = 0;
                CHECK(isValidCell(x), "children-valid", "reference child %016llx rejected by isValidCell", (unsigned long long)x);
                CHECK(cellToParent(x, res, &par) == E_SUCCESS && par == h, "children-parent", "cellToParent(%016llx,%d) = %016llx expected %016llx", (unsigned long long)x, res, (unsigned long long)par, (unsigned long long)h);
            }
        }
    } else if (c.kind == 2) {
        int pres = c.p;
        H3Index out = 0xDEADBEEF;
        H3Error e = cellToParent(h, pres, &out);
        if (pres < 0 || pres > 15) {
            COUNT("parent.err.res_domain");
            CHECK(e == E_RES_DOMAIN, "parent-code", "cellToParent(res %d) returned %u, expected E_RES_DOMAIN", pres, e);
        } else if (pres > res) {
            COUNT("parent.err.res_mismatch");
            NONTRIVIAL();
            CHECK(e == E_RES_MISMATCH, "parent-code", "cellToParent(%016llx, finer res %d) returned %u, expected E_RES_MISMATCH", (unsigned long long)h, pres, e);
        } else {
            COUNT("parent.ok");
            NONTRIVIAL();
            CHECK(e == E_SUCCESS && out == ref::parent(h, pres), "parent", "cellToParent(%016llx,%d) -> err %u %016llx expected %016llx", (unsigned long long)h, pres, e, (unsigned long long)out, (unsigned long long)ref::parent(h, pres));
        }
    } else if (c.kind == 3) {
        COUNT("converse");
        if (res > 0) NONTRIVIAL();
        for (int p = res; p >= 0; p--) {
            H3Index par = 0;
            CHECK(cellToParent(h, p, &par) == E_SUCCESS && par == ref::parent(h, p) && ref::valid_cell(par), "parent", "cellToParent(%016llx,%d) wrong", (unsigned long long)h, p);
            if (res - p <= 4) {
                int64_t n = 0;
                CHECK(cellToChildrenSize(par, res, &n) == E_SUCCESS && n == ref::children_count(par, res), "size", "cellToChildrenSize wrong for ancestor");
                Guarded<H3Index> out((size_t)n);
                CHECK(cellToChildren(par, res, out.p()) == E_SUCCESS, "children", "cellToChildren failed for ancestor %016llx", (unsigned long long)par);
                bool found = false;
                for (int64_t i = 0; i < n; i++) if (out[(size_t)i] == h) found = true;
                CHECK(found, "converse", "%016llx is not among the children of its ancestor %016llx", (unsigned long long)h, (unsigned long long)par);
                CHECK(out.intact(), "guard", "overrun");
            } else {
                // deep ancestor: position through the child-position API must land on h
                int64_t pos = ref::child_pos(h, p);
                H3Index x = 0;
                CHECK(childPosToCell(pos, par, res, &x) == E_SUCCESS && x == h, "converse", "ancestor %016llx does not list %016llx at its reference position", (unsigned long long)par, (unsigned long long)h);
            }
        }
    } else {
        int cres = c.p;
        int64_t n = -7;
        H3Index o = 0;
        H3Error e1 = cellToChildrenSize(h, cres, &n), e2 = cellToCenterChild(h, cres, &o);
        if (cres < res || cres > 15) {
            COUNT("child.err.res_domain");
            if (cres >= 0 && cres <= 15) NONTRIVIAL();
            CHECK(e1 == E_RES_DOMAIN, "child-code", "cellToChildrenSize(%016llx,%d) returned %u, expected E_RES_DOMAIN", (unsigned long long)h, cres, e1);
            CHECK(e2 == E_RES_DOMAIN, "child-code", "cellToCenterChild(%016llx,%d) returned %u, expected E_RES_DOMAIN", (unsigned long long)h, cres, e2);
        } else {
            COUNT("child.ok");
            CHECK(e1 == E_SUCCESS && e2 == E_SUCCESS && n == ref::children_count(h, cres) && o == ref::center_child(h, cres), "size", "size/centre child wrong");
        }
    }
}

static Case draw() {
    Case c;
    c.kind = rpick({5, 3, 2, 2, 1, 1});
    if (c.kind == 5) {
        int r = ri(1, 15);
        uint64_t h = rpick({2, 1}) == 0 ? gen::cellPentChain(r) : gen::cellRes(r).h;
        int pos = ri(1, r);
        if (rpick({2, 1}) == 0) {  // deleted sub-sequence: digits before pos zeroed, digit pos = 1, under a pentagon base cell
            h = (h & ~(127ULL << 45)) | ((uint64_t)ref::PENT_BC[ri(0, 11)] << 45);
            for (int q = 1; q < pos; q++) h &= ~(7ULL << (3 * (15 - q)));
            h = (h & ~(7ULL << (3 * (15 - pos)))) | (1ULL << (3 * (15 - pos)));
        } else
            h |= 7ULL << (3 * (15 - pos));
        c.h = h;
        return c;
    }
    // extra weight on pentagons at every res and on cells k levels below a pentagon
    int res;
    if (c.kind == 0) res = ri(0, 15);
    else res = ri(0, 15);
    gen::GCell g = gen::cellRes(res, {3, 5, 2, 2, 0, 0, 1, 1, 5});
    if (rpick({3, 1}) == 1) g.h = gen::pentagonAt(res, ri(0, 11));
    c.h = g.h;
    if (c.kind == 0) c.p = std::min(15, res + ri(0, MAXFULL));
    else if (c.kind == 1) { c.p = ri(res, 15); c.q = r64(); }
    else if (c.kind == 2) c.p = rpick({6, 1, 1}) == 0 ? ri(0, 15) : ri(-3, 18);
    else if (c.kind == 4) c.p = rpick({6, 1}) == 0 ? ri(0, 15) : ri(-3, 18);
    if (rpick({40, 1}) == 1 && (c.kind == 2 || c.kind == 4)) c.p = ri(0, 1) ? INT32_MAX : INT32_MIN;
    return c;
}

static void enumerate(const std::string &tier, int shard, int nshards, const std::function<void(const Case &)> &emit) {
    // complete: every res-0 cell and every pentagon at every res x every child resolution difference 0..D (full enumeration),
    // and the partition identity res r -> r+1 summed over all cells of res 0..2
    int D = tier == "thorough" ? 8 : 6;
    long idx = 0;
    Case c;
    {   // every pentagon base cell x every resolution x every position of the first non-zero digit: the deleted sub-sequence cell with a zero tail
        int zero[16] = {0};
        for (int b = 0; b < 12; b++)
            for (int r = 1; r <= 15; r++)
                for (int pos = 1; pos <= r; pos++) {
                    if ((idx++ % nshards) != shard) continue;
                    c.kind = 5;
                    c.h = ref::make_cell(r, ref::PENT_BC[b], zero) | (1ULL << (3 * (15 - pos)));
                    emit(c);
                }
        c = Case();
    }
    H3Index r0[122];
    getRes0Cells(r0);
    for (int i = 0; i < 122; i++)
        for (int n = 0; n <= D; n++) {
            if ((idx++ % nshards) != shard) continue;
            c.kind = 0; c.h = r0[i]; c.p = n; emit(c);
        }
    for (int res = 1; res <= 15; res++) {
        H3Index p[12];
        getPentagons(res, p);
        for (int i = 0; i < 12; i++)
            for (int n = 0; n <= D && res + n <= 15; n++) {
                if ((idx++ % nshards) != shard) continue;
                c.kind = 0; c.h = p[i]; c.p = res + n; emit(c);
                // all depth differences for size / centre child / deep sample
            }
        for (int i = 0; i < 12; i++)
            for (int cr = res; cr <= 15; cr++) {
                if ((idx++ % nshards) != shard) continue;
                c.kind = 1; c.h = p[i]; c.p = cr; c.q = (uint64_t)(res * 131 + cr); emit(c);
            }
    }
}

int main(int argc, char **argv) {
    for (int i = 1; i < argc; i++) if (std::string(argv[i]) == "thorough") MAXFULL = 8;
    Harness<Case> h;
    h.id = "C04";
    h.draw = draw;
    h.check = check;
    h.enumerate = enumerate;
    h.ser = ser;
    h.deser = deser;
    h.selftest = []() { const char *e = ref::selftest(); if (e) { fprintf(stderr, "reference model self-test failed: %s\n", e); exit(2); } };
    return harness_main(argc, argv, h);
}
