// C10 — directed edges encode exactly the neighbour pairs and their shared boundary
#include "topo.hpp"
#include <set>
using namespace vh;
using gq::Q;

struct Case {
    int kind = 0;  // 0: origin cell h (+ far cell q); 1: 64-bit candidate edge index h
    uint64_t h = 0, q = 0;
    int arm = -1;
};
static std::string ser(const Case &c) { return fmt("kind=%d h=%016llx q=%016llx arm=%d", c.kind, (unsigned long long)c.h, (unsigned long long)c.q, c.arm); }
static bool deser(const std::string &s, Case &c) {
    unsigned long long h, q = 0;
    int n = sscanf(s.c_str(), "kind=%d h=%llx q=%llx arm=%d", &c.kind, &h, &q, &c.arm);
    c.h = h;
    c.q = q;
    return n >= 2;
}
static const double EARTH_R_KM = 6371.007180918475;

static void predicate(const Case &c) {
    bool want = ref::valid_edge(c.h), got = isValidDirectedEdge(c.h) != 0;
    if (want) { COUNT("pred.valid_edge"); NONTRIVIAL(); }
    else {
        ref::Idx x = ref::unpack(c.h);
        if (x.mode == 2) { COUNT("pred.mode2_invalid"); NONTRIVIAL(); } else COUNT("pred.other_mode");
    }
    CHECK(want == got, want ? "pred-rejects-valid" : "pred-accepts-invalid", "isValidDirectedEdge(%016llx) = %d, the documented form says %d", (unsigned long long)c.h, (int)got, (int)want);
    if (want) {
        // a valid edge decodes to a neighbouring pair and re-encodes to itself
        H3Index od[2] = {0, 0}, e2 = 0;
        CHECK(directedEdgeToCells(c.h, od) == E_SUCCESS && ref::valid_cell(od[0]) && ref::valid_cell(od[1]), "decode", "directedEdgeToCells(%016llx) failed", (unsigned long long)c.h);
        CHECK(cellsToDirectedEdge(od[0], od[1], &e2) == E_SUCCESS && e2 == c.h, "reencode", "edge %016llx decodes to (%016llx,%016llx) which re-encodes to %016llx", (unsigned long long)c.h, (unsigned long long)od[0], (unsigned long long)od[1], (unsigned long long)e2);
    }
}

static void origin(const Case &c) {
    H3Index a = c.h;
    if (!ref::valid_cell(a)) { DISCARD(); return; }
    bool pent = ref::is_pentagon(a);
    std::vector<H3Index> nb;
    if (!topo::geoNeighbors(a, nb)) { COUNT("unprobeable(polar res>=14)"); DISCARD(); return; }
    CHECK((int)nb.size() == (pent ? 5 : 6), "neighbours", "%016llx has %zu geometric neighbours", (unsigned long long)a, nb.size());
    CellBoundary acb;
    std::vector<gq::V> A = topo::boundaryQ(a, &acb);
    Q perim = 0;
    for (size_t i = 0; i < A.size(); i++) perim += gq::angle(A[i], A[(i + 1) % A.size()]);
    Q near = perim / (Q)A.size() * 1e-3Q;
    std::set<H3Index> edges;
    bool special = pent || acb.numVerts != 6;
    for (H3Index b : nb) {
        H3Index e = 0;
        H3Error err = cellsToDirectedEdge(a, b, &e);
        CHECK(err == E_SUCCESS, "encode", "cellsToDirectedEdge(%016llx,%016llx) failed with %u for neighbouring cells", (unsigned long long)a, (unsigned long long)b, err);
        CHECK(isValidDirectedEdge(e) && ref::valid_edge(e), "encode-valid", "cellsToDirectedEdge returned %016llx which is not a valid directed edge", (unsigned long long)e);
        H3Index o = 0, d = 0, od[2] = {0, 0};
        CHECK(getDirectedEdgeOrigin(e, &o) == E_SUCCESS && o == a, "decode", "origin of %016llx is %016llx, expected %016llx", (unsigned long long)e, (unsigned long long)o, (unsigned long long)a);
        CHECK(getDirectedEdgeDestination(e, &d) == E_SUCCESS && d == b, "decode", "destination of %016llx is %016llx, expected %016llx", (unsigned long long)e, (unsigned long long)d, (unsigned long long)b);
        CHECK(directedEdgeToCells(e, od) == E_SUCCESS && od[0] == a && od[1] == b, "decode", "directedEdgeToCells(%016llx) wrong", (unsigned long long)e);
        CHECK(edges.insert(e).second, "encode-dup", "two neighbours give the same edge index");
        // geometry: the edge boundary is the stretch of a's boundary shared with b, in a's order
        CellBoundary bcb, ecb, rcb;
        std::vector<gq::V> B = topo::boundaryQ(b, &bcb);
        if (ref::is_pentagon(b) || bcb.numVerts != 6) special = true;
        topo::SharedRun run = topo::sharedRun(A, B, near);
        CHECK(directedEdgeToBoundary(e, &ecb) == E_SUCCESS, "boundary", "directedEdgeToBoundary(%016llx) failed", (unsigned long long)e);
        CHECK(ecb.numVerts == 2 || ecb.numVerts == 3, "boundary-count", "edge boundary has %d points", ecb.numVerts);
        CHECK(run.consecutive && (int)run.ia.size() == ecb.numVerts, "boundary-shared", "edge %016llx has %d boundary points but the cells share %zu vertices", (unsigned long long)e, ecb.numVerts, run.ia.size());
        Q len = 0;
        std::vector<gq::V> E;
        for (int i = 0; i < ecb.numVerts; i++) E.push_back(gq::fromLL(ecb.verts[i].lat, ecb.verts[i].lng));
        for (int i = 0; i < ecb.numVerts; i++) {
            Q dd = gq::angle(E[i], A[run.ia[i]]);
            WORST("edge boundary vs cell boundary rad", (double)dd);
            CHECK(dd <= 1e-12Q, "boundary-shared", "point %d of edge %016llx is %.3e rad from the shared boundary vertex", i, (unsigned long long)e, (double)dd);
            if (i) len += gq::angle(E[i - 1], E[i]);
        }
        // opposite edge: identical but reversed
        H3Index re = 0;
        CHECK(cellsToDirectedEdge(b, a, &re) == E_SUCCESS && directedEdgeToBoundary(re, &rcb) == E_SUCCESS, "reverse", "reverse edge failed");
        CHECK(rcb.numVerts == ecb.numVerts, "reverse", "edge %016llx has %d points, the opposite edge %d", (unsigned long long)e, ecb.numVerts, rcb.numVerts);
        for (int i = 0; i < ecb.numVerts; i++) {
            Q dd = gq::angle(E[i], gq::fromLL(rcb.verts[ecb.numVerts - 1 - i].lat, rcb.verts[ecb.numVerts - 1 - i].lng));
            WORST("edge vs reversed opposite edge rad", (double)dd);
            CHECK(dd <= 1e-12Q, "reverse", "edge %016llx and its opposite differ by %.3e rad at point %d", (unsigned long long)e, (double)dd, i);
        }
        // lengths
        double lr = -1, lk = -1, lm = -1;
        CHECK(edgeLengthRads(e, &lr) == E_SUCCESS && edgeLengthKm(e, &lk) == E_SUCCESS && edgeLengthM(e, &lm) == E_SUCCESS, "length-code", "edgeLength* failed");
        double rel = (double)(fabsq((Q)lr - len) / len), tol = 1e-9 + 4e-15 / (double)len;
        WORST("edgeLengthRads error / tolerance", rel / tol);
        CHECK(rel <= tol, "length", "edgeLengthRads(%016llx) = %.17g, great-circle length of its boundary is %.17g (rel %.3e)", (unsigned long long)e, lr, (double)len, rel);
        CHECK(fabs(lk - lr * EARTH_R_KM) <= 1e-13 * lk && fabs(lm - lk * 1000) <= 1e-13 * lm, "length-units", "edgeLengthKm/M are not the radian length scaled by the Earth radius");
        if (ecb.numVerts == 3) COUNT("edge.three_points(crosses icosahedron edge)");
    }
    // originToDirectedEdges lists exactly these
    Guarded<H3Index> oe(6, 0x5b);  // poison, not zero: the null slot of a pentagon must be WRITTEN by the call
    CHECK(originToDirectedEdges(a, oe.p()) == E_SUCCESS && oe.intact(), "origin-edges", "originToDirectedEdges failed");
    std::set<H3Index> listed;
    int nulls = 0;
    for (int i = 0; i < 6; i++) { if (oe[(size_t)i]) listed.insert(oe[(size_t)i]); else nulls++; }
    CHECK(nulls == (pent ? 1 : 0) && listed == edges, "origin-edges", "originToDirectedEdges(%016llx) lists %zu edges with %d null slots; the neighbour pairs give %zu edges", (unsigned long long)a, listed.size(), nulls, edges.size());
    // non-neighbours
    H3Index dummy = 0;
    H3Error err = cellsToDirectedEdge(a, a, &dummy);
    CHECK(err == E_NOT_NEIGHBORS, "not-neighbours", "cellsToDirectedEdge(a,a) returned %u", err);
    std::set<H3Index> N(nb.begin(), nb.end());
    for (H3Index b : nb) {
        std::vector<H3Index> nb2;
        if (!topo::geoNeighbors(b, nb2)) continue;
        for (H3Index x : nb2) {
            if (x == a || N.count(x)) continue;
            err = cellsToDirectedEdge(a, x, &dummy);
            CHECK(err == E_NOT_NEIGHBORS, "not-neighbours", "cellsToDirectedEdge(%016llx,%016llx) returned %u for cells two steps apart", (unsigned long long)a, (unsigned long long)x, err);
        }
    }
    if (c.q && c.q != a && !N.count(c.q) && ref::valid_cell(c.q) && ref::res_of(c.q) == ref::res_of(a)) {
        err = cellsToDirectedEdge(a, c.q, &dummy);
        CHECK(err == E_NOT_NEIGHBORS, "not-neighbours", "cellsToDirectedEdge(%016llx,%016llx) returned %u for non-adjacent cells", (unsigned long long)a, (unsigned long long)c.q, err);
    }
    {   // cells of another resolution are never neighbours: parent, centre child, a neighbour's parent / centre child, in both argument orders
        int ra = ref::res_of(a);
        std::vector<H3Index> other;
        if (ra > 0) { other.push_back(ref::parent(a, ra - 1)); if (!nb.empty()) other.push_back(ref::parent(nb[0], ra - 1)); }
        if (ra > 1) other.push_back(ref::parent(a, 0));
        if (ra < 15) { other.push_back(ref::center_child(a, ra + 1)); if (!nb.empty()) other.push_back(ref::center_child(nb[nb.size() - 1], ra + 1)); }
        if (ra < 14) other.push_back(ref::center_child(a, 15));
        for (H3Index x : other) {
            err = cellsToDirectedEdge(a, x, &dummy);
            CHECK(err == E_NOT_NEIGHBORS, "not-neighbours", "cellsToDirectedEdge(%016llx,%016llx) returned %u for cells of different resolutions (never neighbours)", (unsigned long long)a, (unsigned long long)x, err);
            err = cellsToDirectedEdge(x, a, &dummy);
            CHECK(err == E_NOT_NEIGHBORS, "not-neighbours", "cellsToDirectedEdge(%016llx,%016llx) returned %u for cells of different resolutions (never neighbours)", (unsigned long long)x, (unsigned long long)a, err);
        }
    }
    if (special) NONTRIVIAL();
    COUNT("origin");
    if (pent) COUNT("origin.pentagon");
}

static void check(const Case &c) {
    if (c.kind == 1) predicate(c);
    else origin(c);
}

static Case draw() {
    Case c;
    c.kind = rpick({3, 2});
    int res = ri(0, 15);
    gen::GCell g = gen::cellRes(res, {2, 2, 6, 8, 1, 1, 1, 1, 1});
    if (c.kind == 0) {
        c.h = g.h;
        c.arm = g.arm;
        c.q = gen::cellRes(res).h;
        return c;
    }
    // structured 64-bit edge candidates
    int m = rpick({4, 3, 2, 2, 1, 1});
    if (m == 4) { c.h = r64(); return c; }
    ref::Idx x = ref::unpack(rpick({1, 1}) ? g.h : gen::pentagonAt(res, ri(0, 11)));
    x.mode = 2;
    x.reserved = ri(1, 6);
    if (m == 1) x.reserved = ri(0, 7);
    if (m == 2) x.mode = ri(0, 15);
    if (m == 3) { int w = ri(0, 2); if (w == 0) x.d[ri(1, 15)] = ri(0, 7); else if (w == 1) x.bc = ri(120, 127); else x.high = 1; }
    c.h = ref::pack(x);
    if (m == 5) c.h ^= 1ULL << ri(0, 63);
    return c;
}

static void enumerate(const std::string &tier, int shard, int nshards, const std::function<void(const Case &)> &emit) {
    bool th = tier == "thorough";
    long idx = 0;
    Case c;
    int zero[16] = {0};
    for (int r = 0; r <= (th ? 4 : 3); r++)
        for (int bc = 0; bc < 122; bc++) {
            if ((idx++ % nshards) != shard) continue;
            uint64_t base = ref::make_cell(0, bc, zero);
            int64_t n = ref::children_count(base, r);
            for (int64_t i = 0; i < n; i++) { c.kind = 0; c.h = ref::child_at(base, r, i); c.q = 0; emit(c); }
        }
    // every pentagon of every res: all 8 reserved values x all 16 modes; and its k=1 disk as origins
    for (int r = 0; r <= 15; r++) {
        H3Index p[12];
        getPentagons(r, p);
        for (int i = 0; i < 12; i++) {
            if ((idx++ % nshards) != shard) continue;
            for (int mode = 0; mode < 16; mode++)
                for (int dir = 0; dir < 8; dir++) {
                    ref::Idx x = ref::unpack(p[i]);
                    x.mode = mode;
                    x.reserved = dir;
                    c.kind = 1; c.h = ref::pack(x); emit(c);
                }
            H3Index d[7] = {0};
            gridDisk(p[i], 1, d);
            for (H3Index h : d) if (h) { c.kind = 0; c.h = h; c.q = 0; emit(c); }
        }
    }
}

int main(int argc, char **argv) {
    Harness<Case> h;
    h.id = "C10";
    h.draw = draw;
    h.check = check;
    h.enumerate = enumerate;
    h.ser = ser;
    h.deser = deser;
    h.fp = [](const Case &c) { return mix64(mix64(c.h, c.q), (uint64_t)c.kind); };
    return harness_main(argc, argv, h);
}
