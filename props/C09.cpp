// C09 — gridDistance is the true graph distance; local IJ is a consistent partial chart
#include "topo.hpp"
#include <set>
using namespace vh;

struct Case {
    int kind = 0;  // 0: BFS ball (origin h, radius k); 1: res mismatch (h, q); 2: localIjToCell(h, i, j) incl. extremes; 3: whole globe from origin h (all cells of its res)
    uint64_t h = 0, q = 0;
    int k = 0, i = 0, j = 0;
    int arm = -1;
};
static std::string ser(const Case &c) { return fmt("kind=%d h=%016llx k=%d q=%016llx i=%d j=%d arm=%d", c.kind, (unsigned long long)c.h, c.k, (unsigned long long)c.q, c.i, c.j, c.arm); }
static bool deser(const std::string &s, Case &c) {
    unsigned long long h, q = 0;
    int n = sscanf(s.c_str(), "kind=%d h=%llx k=%d q=%llx i=%d j=%d arm=%d", &c.kind, &h, &c.k, &q, &c.i, &c.j, &c.arm);
    c.h = h;
    c.q = q;
    return n >= 3;
}

static topo::NeighborCache NC;

static bool unitStep(int di, int dj) {
    return (di == 1 && dj == 0) || (di == 0 && dj == 1) || (di == 1 && dj == 1) || (di == -1 && dj == 0) || (di == 0 && dj == -1) || (di == -1 && dj == -1);
}

static void ball(const Case &c) {
    H3Index o = c.h;
    int K = c.k;
    if (NC.m.size() > 600000) NC.clear();
    NC.unprobeable = false;
    std::unordered_map<H3Index, int> dist = topo::bfs(NC, o, K);
    if (NC.unprobeable) { COUNT("unprobeable(polar res>=14)"); DISCARD(); return; }
    bool hasPent = false, seam = false;
    for (auto &kv : dist) {
        if (ref::is_pentagon(kv.first)) hasPent = true;
        if (ref::unpack(kv.first).bc != ref::unpack(o).bc) seam = true;
    }
    long ok = 0, failed = 0, ijok = 0, ijfail = 0;
    std::unordered_map<H3Index, CoordIJ> IJ;
    for (auto &kv : dist) {
        H3Index b = kv.first;
        int want = kv.second;
        int64_t d = -1, d2 = -1;
        H3Error e = gridDistance(o, b, &d);
        if (e == E_SUCCESS) {
            ok++;
            CHECK(d == want, "distance", "gridDistance(%016llx,%016llx) = %lld but the cells are %d neighbour steps apart", (unsigned long long)o, (unsigned long long)b, (long long)d, want);
            H3Error e2 = gridDistance(b, o, &d2);
            if (e2 == E_SUCCESS) CHECK(d2 == d, "asymmetric", "gridDistance(a,b) = %lld but gridDistance(b,a) = %lld for a=%016llx b=%016llx", (long long)d, (long long)d2, (unsigned long long)o, (unsigned long long)b);
        } else {
            failed++;
            CHECK(e <= 15, "code", "gridDistance returned undocumented code %u", e);
            CHECK(want >= 2, want == 0 ? "self" : "neighbour-fails", "gridDistance(%016llx,%016llx) fails with %u although the cells are %s", (unsigned long long)o, (unsigned long long)b, e, want == 0 ? "identical" : "neighbours");
        }
        if (want == 1) {
            // also from the neighbour's side
            e = gridDistance(b, o, &d2);
            CHECK(e == E_SUCCESS && d2 == 1, "neighbour-fails", "gridDistance(%016llx,%016llx) -> err %u dist %lld for neighbouring cells", (unsigned long long)b, (unsigned long long)o, e, (long long)d2);
        }
        // IJ round trip cell -> ij -> cell
        CoordIJ ij = {0, 0};
        e = cellToLocalIj(o, b, 0, &ij);
        if (e == E_SUCCESS) {
            IJ[b] = ij;
            H3Index back = 0;
            H3Error e3 = localIjToCell(o, &ij, 0, &back);
            if (e3 == E_SUCCESS) {
                ijok++;
                CHECK(back == b, "ij-roundtrip", "cellToLocalIj(%016llx,%016llx) = (%d,%d) but localIjToCell of that gives %016llx", (unsigned long long)o, (unsigned long long)b, ij.i, ij.j, (unsigned long long)back);
            }
        } else {
            ijfail++;
            CHECK(e <= 15, "code", "cellToLocalIj returned undocumented code %u", e);
        }
    }
    // where no pentagon lies in the explored ball, neighbouring cells differ by exactly one unit step
    if (!hasPent) {
        for (auto &kv : IJ) {
            for (H3Index v : NC.get(kv.first)) {
                auto it = IJ.find(v);
                if (it == IJ.end()) continue;
                int di = it->second.i - kv.second.i, dj = it->second.j - kv.second.j;
                CHECK(unitStep(di, dj), "ij-unit-step", "neighbouring cells %016llx and %016llx have local IJ (%d,%d) and (%d,%d) from origin %016llx (no pentagon within %d steps)", (unsigned long long)kv.first, (unsigned long long)v, kv.second.i, kv.second.j, it->second.i, it->second.j, (unsigned long long)o, K);
            }
        }
        if (ijfail || failed) COUNT("ball.failures_without_pentagon_in_ball(not judged)");
    }
    if (hasPent || seam) NONTRIVIAL();
    COUNT("ball");
    if (hasPent) COUNT("ball.contains_pentagon");
    if (seam) COUNT("ball.crosses_base_cell_seam");
    if (failed) COUNT("ball.some_gridDistance_failed");
    if (K >= 15) COUNT("ball.radius>=15");
    static Counter pairs("pairs_compared");
    pairs.n += (uint64_t)ok;
}

static void mismatch(const Case &c) {
    if (!ref::valid_cell(c.h) || !ref::valid_cell(c.q) || ref::res_of(c.h) == ref::res_of(c.q)) { DISCARD(); return; }
    int64_t d = -5;
    H3Error e = gridDistance(c.h, c.q, &d);
    CHECK(e == E_RES_MISMATCH, "res-mismatch", "gridDistance of cells with resolutions %d and %d returned %u, expected E_RES_MISMATCH", ref::res_of(c.h), ref::res_of(c.q), e);
    NONTRIVIAL();
    COUNT("res_mismatch");
}

static void ijProbe(const Case &c) {
    H3Index o = c.h;
    CoordIJ ij = {c.i, c.j};
    H3Index out = 0;
    H3Error e = localIjToCell(o, &ij, 0, &out);
    CHECK(e <= 15, "code", "localIjToCell returned undocumented code %u", e);
    bool extreme = c.i > 1000000 || c.i < -1000000 || c.j > 1000000 || c.j < -1000000;
    if (e == E_SUCCESS) {
        CHECK(ref::valid_cell(out) && ref::res_of(out) == ref::res_of(o), "ij-invalid", "localIjToCell(%016llx,(%d,%d)) returned %016llx which is not a valid cell of the origin's resolution", (unsigned long long)o, c.i, c.j, (unsigned long long)out);
        CoordIJ back = {0, 0};
        H3Error e2 = cellToLocalIj(o, out, 0, &back);
        if (e2 == E_SUCCESS) CHECK(back.i == c.i && back.j == c.j, "ij-roundtrip2", "localIjToCell(%016llx,(%d,%d)) = %016llx but cellToLocalIj of that gives (%d,%d)", (unsigned long long)o, c.i, c.j, (unsigned long long)out, back.i, back.j);
        NONTRIVIAL();
        COUNT(extreme ? "ij.extreme.success" : "ij.success");
    } else COUNT(extreme ? "ij.extreme.rejected" : "ij.rejected");
    uint32_t badmode = (uint32_t)(c.k | 1);
    CHECK(localIjToCell(o, &ij, badmode, &out) == E_OPTION_INVALID, "mode", "localIjToCell(mode %u) not rejected with E_OPTION_INVALID", badmode);
    CoordIJ t;
    CHECK(cellToLocalIj(o, o, badmode, &t) == E_OPTION_INVALID, "mode", "cellToLocalIj(mode %u) not rejected with E_OPTION_INVALID", badmode);
}

static void globe(const Case &c) {
    H3Index o = c.h;
    int r = ref::res_of(o);
    NC.unprobeable = false;
    std::unordered_map<H3Index, int> dist = topo::bfs(NC, o, 100000);
    if (NC.unprobeable) { DISCARD(); return; }
    CHECK((int64_t)dist.size() == ref::num_cells(r), "bfs-size", "BFS from %016llx reaches %zu cells of %lld", (unsigned long long)o, dist.size(), (long long)ref::num_cells(r));
    long ok = 0;
    for (auto &kv : dist) {
        int64_t d = -1;
        H3Error e = gridDistance(o, kv.first, &d);
        if (e == E_SUCCESS) {
            ok++;
            CHECK(d == kv.second, "distance", "gridDistance(%016llx,%016llx) = %lld but the cells are %d neighbour steps apart", (unsigned long long)o, (unsigned long long)kv.first, (long long)d, kv.second);
        } else CHECK(kv.second >= 2, "neighbour-fails", "gridDistance(%016llx,%016llx) fails with %u at distance %d", (unsigned long long)o, (unsigned long long)kv.first, e, kv.second);
    }
    NONTRIVIAL();
    COUNT("whole_globe_origin");
    static Counter pairs("pairs_compared");
    pairs.n += (uint64_t)ok;
}

static void check(const Case &c) {
    if (!ref::valid_cell(c.h)) { DISCARD(); return; }
    if (c.kind == 0) ball(c);
    else if (c.kind == 1) mismatch(c);
    else if (c.kind == 2) ijProbe(c);
    else globe(c);
}

static int KMAX = 20;

static Case draw() {
    Case c;
    c.kind = rpick({6, 1, 3});
    int res = ri(0, 15);
    gen::GCell g = gen::cellRes(res, {2, 2, 7, 4, 1, 1, 1, 1, 1});
    c.h = g.h;
    c.arm = g.arm;
    if (c.kind == 0) c.k = rpick({3, 1}) == 0 ? ri(1, 8) : ri(1, KMAX);
    else if (c.kind == 1) c.q = gen::cell(0, 15).h;
    else {
        int m = rpick({4, 1, 1});
        if (m == 0) { c.i = ri(-60, 60); c.j = ri(-60, 60); }
        else if (m == 1) { c.i = ri(-3000000, 3000000); c.j = ri(-3000000, 3000000); }
        else {
            static const int X[] = {INT32_MAX, INT32_MIN, INT32_MAX - 1, INT32_MIN + 1, INT32_MAX / 2, INT32_MIN / 2, 0, 1, -1, INT32_MAX / 3, 1 << 30, -(1 << 30)};
            c.i = X[ri(0, 11)];
            c.j = X[ri(0, 11)];
        }
        c.k = ri(0, 1 << 20);
    }
    return c;
}

static void enumerate(const std::string &tier, int shard, int nshards, const std::function<void(const Case &)> &emit) {
    bool th = tier == "thorough";
    long idx = 0;
    Case c;
    int zero[16] = {0};
    // whole globe: all ordered pairs of res 0 and res 1 (res 2 thorough; quick: every 7th origin of res 2)
    c.kind = 3;
    for (int r = 0; r <= 2; r++)
        for (int bc = 0; bc < 122; bc++) {
            uint64_t base = ref::make_cell(0, bc, zero);
            int64_t n = ref::children_count(base, r);
            for (int64_t i = 0; i < n; i += (r == 2 && !th ? 7 : 1)) {
                if ((idx++ % nshards) != shard) continue;
                c.h = ref::child_at(base, r, i);
                emit(c);
            }
        }
    // complete near-pentagon stratum at the coarsest odd resolution that has room for it (res 1 and 2 are covered globally above): every
    // cell within 9 (thorough 14) steps of each pentagon as origin, against every cell within 14 (20) steps of that origin
    c.kind = 0;
    {
        int K = th ? 14 : 9, Rb = th ? 20 : 14;
        H3Index p3[12];
        getPentagons(3, p3);
        for (int i = 0; i < 12; i++) {
            int64_t n = 0;
            maxGridDiskSize(K, &n);
            std::vector<H3Index> ball((size_t)n, 0);
            if (gridDisk(p3[i], K, ball.data())) continue;
            std::sort(ball.begin(), ball.end());
            for (H3Index x : ball) {
                if (!x) continue;
                if ((idx++ % nshards) != shard) continue;
                c.h = x; c.k = Rb; emit(c);
            }
        }
    }
    // pentagon neighbourhoods at every res: balls of radius K around the pentagon's neighbours and second ring
    c.kind = 0;
    for (int r = 0; r <= 15; r++) {
        H3Index p[12];
        getPentagons(r, p);
        for (int i = 0; i < 12; i++) {
            if ((idx++ % nshards) != shard) continue;
            H3Index d[19] = {0};
            gridDisk(p[i], 2, d);
            for (H3Index h : d) if (h) { c.h = h; c.k = th ? 16 : 6; emit(c); }
        }
    }
}

int main(int argc, char **argv) {
    for (int i = 1; i < argc; i++) if (std::string(argv[i]) == "thorough") KMAX = 30;
    Harness<Case> h;
    h.id = "C09";
    h.draw = draw;
    h.check = check;
    h.enumerate = enumerate;
    h.ser = ser;
    h.deser = deser;
    return harness_main(argc, argv, h);
}
