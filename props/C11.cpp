// C11 — vertex indexes are canonical: one index per corner, shared by its three cells
#include "topo.hpp"
#include <set>
#include <map>
using namespace vh;
using gq::Q;

struct Case {
    int kind = 0;  // 0: cell h; 1: 64-bit candidate vertex index h; 2: whole resolution p (2N-4 identity)
    uint64_t h = 0;
    int p = 0;
    int arm = -1;
};
static std::string ser(const Case &c) { return fmt("kind=%d h=%016llx p=%d arm=%d", c.kind, (unsigned long long)c.h, c.p, c.arm); }
static bool deser(const std::string &s, Case &c) {
    unsigned long long h;
    int n = sscanf(s.c_str(), "kind=%d h=%llx p=%d arm=%d", &c.kind, &h, &c.p, &c.arm);
    c.h = h;
    return n >= 2;
}

static bool vertexSet(H3Index cell, std::vector<H3Index> &v) {
    H3Index out[6] = {0};
    if (cellToVertexes(cell, out)) return false;
    v.assign(out, out + 6);
    return true;
}

static void cellCheck(const Case &c) {
    H3Index a = c.h;
    if (!ref::valid_cell(a)) { DISCARD(); return; }
    bool pent = ref::is_pentagon(a);
    int nc = pent ? 5 : 6;
    Guarded<H3Index> vx(6, 0x11);
    H3Error e = cellToVertexes(a, vx.p());
    CHECK(vx.intact(), "guard", "cellToVertexes wrote outside 6 slots");
    CHECK(e == E_SUCCESS, "code", "cellToVertexes(%016llx) failed with %u", (unsigned long long)a, e);
    std::set<H3Index> VA;
    for (int i = 0; i < 6; i++) {
        H3Index v = vx[(size_t)i];
        if (i >= nc) { CHECK(v == 0, "null-slot", "pentagon slot 5 is not null"); continue; }
        CHECK(v != 0 && isValidVertex(v), "valid", "slot %d of cellToVertexes(%016llx) = %016llx is not accepted by isValidVertex", i, (unsigned long long)a, (unsigned long long)v);
        CHECK(VA.insert(v).second, "distinct", "cellToVertexes(%016llx) repeats %016llx", (unsigned long long)a, (unsigned long long)v);
        H3Index one = 0;
        CHECK(cellToVertex(a, i, &one) == E_SUCCESS && one == v, "slot", "cellToVertex(%016llx,%d) = %016llx but slot %d = %016llx", (unsigned long long)a, i, (unsigned long long)one, i, (unsigned long long)v);
        ref::Idx x = ref::unpack(v);
        CHECK(x.mode == 4, "mode", "vertex index %016llx does not have mode 4", (unsigned long long)v);
    }
    for (int n : {-1, nc, nc + 1, 7, 8, INT32_MAX, INT32_MIN}) {
        H3Index dummy = 0;
        H3Error er = cellToVertex(a, n, &dummy);
        CHECK(er == E_DOMAIN, "domain", "cellToVertex(%016llx, vertexNum %d) returned %u, expected E_DOMAIN", (unsigned long long)a, n, er);
    }
    // geometry: topological corners of the boundary
    std::vector<H3Index> nb;
    if (!topo::geoNeighbors(a, nb)) { COUNT("unprobeable(polar res>=14)"); DISCARD(); return; }
    CHECK((int)nb.size() == nc, "neighbours", "%016llx has %zu geometric neighbours", (unsigned long long)a, nb.size());
    CellBoundary acb;
    std::vector<gq::V> A = topo::boundaryQ(a, &acb);
    int nv = (int)A.size();
    Q perim = 0;
    for (int i = 0; i < nv; i++) perim += gq::angle(A[i], A[(i + 1) % nv]);
    Q near = perim / nv * 1e-3Q;
    std::vector<std::vector<H3Index>> touch(nv);  // neighbours whose boundary contains vertex i
    bool special = pent || nv != 6;
    std::map<H3Index, std::vector<H3Index>> NV;
    for (H3Index b : nb) {
        CellBoundary bcb;
        std::vector<gq::V> B = topo::boundaryQ(b, &bcb);
        if (ref::is_pentagon(b) || bcb.numVerts != 6) special = true;
        topo::SharedRun run = topo::sharedRun(A, B, near);
        for (int i : run.ia) touch[i].push_back(b);
        CHECK(vertexSet(b, NV[b]), "code", "cellToVertexes failed on neighbour %016llx", (unsigned long long)b);
        // neighbours share exactly two vertex indexes
        int shared = 0;
        for (H3Index v : NV[b]) if (v && VA.count(v)) shared++;
        CHECK(shared == 2, "share-two", "neighbours %016llx and %016llx share %d vertex indexes", (unsigned long long)a, (unsigned long long)b, shared);
    }
    std::vector<int> corners;
    for (int i = 0; i < nv; i++) {
        CHECK(touch[i].size() == 1 || touch[i].size() == 2, "corner-id", "boundary vertex %d of %016llx lies on %zu neighbours", i, (unsigned long long)a, touch[i].size());
        if (touch[i].size() == 2) corners.push_back(i);
    }
    CHECK((int)corners.size() == nc, "corner-id", "%016llx has %zu topological corners, expected %d", (unsigned long long)a, corners.size(), nc);
    for (int i = 0; i < nc; i++) {
        H3Index v = vx[(size_t)i];
        LatLng g;
        CHECK(vertexToLatLng(v, &g) == E_SUCCESS, "v2ll", "vertexToLatLng(%016llx) failed", (unsigned long long)v);
        Q d = gq::angle(gq::fromLL(g.lat, g.lng), A[corners[i]]);
        WORST("vertexToLatLng vs corner rad", (double)d);
        CHECK(d <= 1e-12Q, "corner-geo", "vertexToLatLng(slot %d of %016llx) is %.3e rad from the %d-th topological corner of cellToBoundary", i, (unsigned long long)a, (double)d, i);
        // the two other cells at this corner produce the identical index
        for (H3Index b : touch[corners[i]]) {
            bool found = false;
            for (H3Index w : NV[b]) if (w == v) found = true;
            CHECK(found, "share-three", "corner %d of %016llx (vertex %016llx) is not among the vertexes of %016llx, which shares that corner", i, (unsigned long long)a, (unsigned long long)v, (unsigned long long)b);
        }
    }
    // distance-2 cells do not share two vertexes
    std::set<H3Index> N(nb.begin(), nb.end());
    for (H3Index b : nb) {
        std::vector<H3Index> nb2;
        if (!topo::geoNeighbors(b, nb2)) continue;
        for (H3Index x : nb2) {
            if (x == a || N.count(x)) continue;
            std::vector<H3Index> vxs;
            if (!vertexSet(x, vxs)) continue;
            int shared = 0;
            for (H3Index v : vxs) if (v && VA.count(v)) shared++;
            CHECK(shared < 2, "share-two", "non-neighbours %016llx and %016llx share %d vertex indexes", (unsigned long long)a, (unsigned long long)x, shared);
        }
    }
    // non-canonical encodings: every (cell, vertexNum 0..7) naming through a and its neighbours
    std::vector<H3Index> cells = nb;
    cells.push_back(a);
    for (H3Index cell : cells) {
        std::vector<H3Index> own;
        if (cell == a) own.assign(vx.p(), vx.p() + 6); else own = NV[cell];
        std::set<H3Index> produced(own.begin(), own.end());
        for (int n = 0; n < 8; n++) {
            ref::Idx x = ref::unpack(cell);
            x.mode = 4;
            x.reserved = n;
            H3Index cand = ref::pack(x);
            bool want = produced.count(cand) > 0;
            bool got = isValidVertex(cand) != 0;
            CHECK(want == got, want ? "canon-rejects" : "canon-accepts", "isValidVertex(%016llx) = %d: cell %016llx vertexNum %d %s the canonical index of that corner", (unsigned long long)cand, (int)got, (unsigned long long)cell, n, want ? "is" : "is not");
            if (!want) COUNT("noncanonical_rejected");
        }
    }
    if (special) NONTRIVIAL();
    COUNT("cell");
    if (pent) COUNT("cell.pentagon");
    if (nv > nc) COUNT("cell.with_distortion_vertices");
}

static void predicate(const Case &c) {
    // structured candidates: valid only if mode 4, valid owner, vertexNum in range and canonical (= what the owner produces)
    ref::Idx x = ref::unpack(c.h);
    bool got = isValidVertex(c.h) != 0;
    ref::Idx o = x;
    o.mode = 1;
    o.reserved = 0;
    H3Index owner = ref::pack(o);
    bool want = false;
    if (x.high == 0 && x.mode == 4 && ref::valid_cell(owner)) {
        H3Index out[6] = {0};
        if (cellToVertexes(owner, out) == E_SUCCESS)
            for (H3Index v : out) if (v == c.h) want = true;
        NONTRIVIAL();
        COUNT(want ? "pred.canonical" : "pred.mode4_noncanonical");
    } else COUNT("pred.bad_mode_or_owner");
    CHECK(want == got, want ? "pred-rejects-valid" : "pred-accepts-invalid", "isValidVertex(%016llx) = %d, expected %d", (unsigned long long)c.h, (int)got, (int)want);
}

static void wholeRes(const Case &c) {
    int r = c.p;
    int zero[16] = {0};
    std::unordered_map<H3Index, int> cnt;
    int64_t N = 0;
    for (int bc = 0; bc < 122; bc++) {
        uint64_t base = ref::make_cell(0, bc, zero);
        int64_t n = ref::children_count(base, r);
        for (int64_t i = 0; i < n; i++) {
            H3Index h = ref::child_at(base, r, i);
            H3Index out[6] = {0};
            CHECK(cellToVertexes(h, out) == E_SUCCESS, "code", "cellToVertexes failed");
            for (H3Index v : out) if (v) cnt[v]++;
            N++;
        }
    }
    CHECK((int64_t)cnt.size() == 2 * N - 4, "2N-4", "res %d: %zu distinct vertex indexes for N=%lld cells, expected 2N-4 = %lld", r, cnt.size(), (long long)N, (long long)(2 * N - 4));
    for (auto &kv : cnt) CHECK(kv.second == 3, "three-times", "res %d: vertex %016llx is produced by %d cells, expected 3", r, (unsigned long long)kv.first, kv.second);
    NONTRIVIAL();
    COUNT("whole_resolution_2N-4");
}

static void check(const Case &c) {
    if (c.kind == 1) predicate(c);
    else if (c.kind == 2) wholeRes(c);
    else cellCheck(c);
}

static Case draw() {
    Case c;
    c.kind = rpick({3, 1});
    int res = ri(0, 15);
    gen::GCell g = gen::cellRes(res, {2, 2, 6, 8, 1, 1, 1, 1, 1});
    c.h = g.h;
    c.arm = g.arm;
    if (c.kind == 1) {
        int m = rpick({4, 2, 2, 1, 1});
        if (m == 4) { c.h = r64(); return c; }
        ref::Idx x = ref::unpack(rpick({2, 1}) ? g.h : gen::pentagonAt(res, ri(0, 11)));
        x.mode = 4;
        x.reserved = ri(0, 7);
        if (m == 1) x.mode = ri(0, 15);
        if (m == 2) { int w = ri(0, 2); if (w == 0) x.d[ri(1, 15)] = ri(0, 7); else if (w == 1) x.bc = ri(120, 127); else x.high = 1; }
        c.h = ref::pack(x);
        if (m == 3) c.h ^= 1ULL << ri(0, 63);
    }
    return c;
}

static void enumerate(const std::string &tier, int shard, int nshards, const std::function<void(const Case &)> &emit) {
    bool th = tier == "thorough";
    long idx = 0;
    Case c;
    int zero[16] = {0};
    for (int r = (th ? 6 : 4); r >= 0; r--) { if ((idx++ % nshards) != shard) continue; c.kind = 2; c.p = r; emit(c); }
    c.kind = 0;
    for (int r = 0; r <= (th ? 4 : 3); r++)
        for (int bc = 0; bc < 122; bc++) {
            if ((idx++ % nshards) != shard) continue;
            uint64_t base = ref::make_cell(0, bc, zero);
            int64_t n = ref::children_count(base, r);
            for (int64_t i = 0; i < n; i++) { c.h = ref::child_at(base, r, i); emit(c); }
        }
    for (int r = 0; r <= 15; r++) {
        H3Index p[12];
        getPentagons(r, p);
        for (int i = 0; i < 12; i++) {
            if ((idx++ % nshards) != shard) continue;
            H3Index d[19] = {0};
            gridDisk(p[i], 2, d);
            for (H3Index h : d) if (h) { c.h = h; emit(c); }
        }
    }
}

int main(int argc, char **argv) {
    Harness<Case> h;
    h.id = "C11";
    h.draw = draw;
    h.check = check;
    h.enumerate = enumerate;
    h.ser = ser;
    h.deser = deser;
    h.fp = [](const Case &c) { return mix64(c.h, (uint64_t)c.kind * 100 + (uint64_t)c.p); };
    return harness_main(argc, argv, h);
}
