// C19 — getIcosahedronFaces reports exactly the faces a cell touches
#include "topo.hpp"
using namespace vh;
using gq::Q;

struct Case {
    uint64_t h = 0;
    int arm = -1;
};
static std::string ser(const Case &c) { return fmt("h=%016llx arm=%d", (unsigned long long)c.h, c.arm); }
static bool deser(const std::string &s, Case &c) {
    unsigned long long h;
    int n = sscanf(s.c_str(), "h=%llx arm=%d", &h, &c.arm);
    c.h = h;
    return n >= 1;
}

// the 20 face centres with the library's face numbering (specification constants)
static const double FACE_CENTRE[20][2] = {
    {0.803582649718989942, 1.248397419617396099},   {1.307747883455638156, 2.536945009877921159},   {1.054751253523952054, -1.347517358900396623},
    {0.600191595538186799, -0.450603909469755746},  {0.491715428198773866, 0.401988202911306943},   {0.172745327415618701, 1.678146885280433686},
    {0.605929321571350690, 2.953923329812411617},   {0.427370518328979641, -1.888876200336285401},  {-0.079066118549212831, -0.733429513380867741},
    {-0.230961644455383637, 0.506495587332349035},  {0.079066118549212831, 2.408163140208925497},   {0.230961644455383637, -2.635097066257444203},
    {-0.172745327415618701, -1.463445768309359553}, {-0.605929321571350690, -0.187669323777381622}, {-0.427370518328979641, 1.252716453253507838},
    {-0.600191595538186799, 2.690988744120037492},  {-0.491715428198773866, -2.739604450678486295}, {-0.803582649718989942, -1.893195233972397139},
    {-1.307747883455638156, -0.604647643711872080}, {-1.054751253523952054, 1.794075294689396615}};
static gq::V FC[20];

static void check(const Case &c) {
    H3Index h = c.h;
    if (!ref::valid_cell(h)) { DISCARD(); return; }
    bool pent = ref::is_pentagon(h);
    int mx = -1;
    CHECK(maxFaceCount(h, &mx) == E_SUCCESS && mx == (pent ? 5 : 2), "maxfacecount", "maxFaceCount(%016llx) = %d", (unsigned long long)h, mx);
    Guarded<int> out((size_t)mx, 0x77);
    H3Error e = getIcosahedronFaces(h, out.p());
    CHECK(out.intact(), "guard", "getIcosahedronFaces wrote outside maxFaceCount slots");
    CHECK(e == E_SUCCESS, "code", "getIcosahedronFaces(%016llx) failed with %u", (unsigned long long)h, e);
    bool rep[20] = {false};
    int nrep = 0;
    for (int i = 0; i < mx; i++) {
        int f = out[(size_t)i];
        CHECK(f == -1 || (f >= 0 && f <= 19), "slot", "slot %d holds %d (unwritten or out of range)", i, f);
        if (f < 0) continue;
        CHECK(!rep[f], "slot-dup", "face %d reported twice", f);
        rep[f] = true;
        nrep++;
    }
    if (pent) CHECK(nrep == 5, "count", "pentagon %016llx reports %d faces", (unsigned long long)h, nrep);
    else CHECK(nrep == 1 || nrep == 2, "count", "hexagon %016llx reports %d faces", (unsigned long long)h, nrep);
    // oracle: clip the boundary polygon against every face region (closer to centre f than to any other centre)
    std::vector<gq::V> P = topo::boundaryQ(h);
    gq::V ctr = topo::centreQ(h);
    Q area = gq::polyArea(P, ctr);
    int touched = 0, undecided = 0;
    for (int f = 0; f < 20; f++) {
        // quick reject: a face whose centre is > 1.2 rad from the cell centre cannot own any part of the cell (face circumradius 0.6524 + largest cell radius < 0.3)
        if (gq::angle(ctr, FC[f]) > 1.2Q) { CHECK(!rep[f], "extra", "face %d reported but it is on the far side of the globe", f); continue; }
        std::vector<gq::V> poly = P;
        for (int g = 0; g < 20 && poly.size() >= 3; g++) {
            if (g == f) continue;
            poly = gq::clipHalf(poly, gq::sub(FC[f], FC[g]));
        }
        Q a = poly.size() >= 3 ? gq::polyArea(poly) : 0;
        double rho = (double)(a / area);
        if (rho > 1e-6) {
            touched++;
            CHECK(rep[f], "missing", "the interior of %016llx intersects face %d (%.3e of its area) but the face is not reported", (unsigned long long)h, f, rho);
        } else if (rho < 1e-9) {
            CHECK(!rep[f], "extra", "face %d is reported for %016llx but the cell does not reach it (area share %.3e)", f, (unsigned long long)h, rho);
        } else {
            undecided++;
        }
    }
    if (undecided) COUNT("undecided_face(share 1e-9..1e-6)");
    if (touched >= 2) NONTRIVIAL();
    COUNT(pent ? "pentagon" : touched >= 2 ? "hexagon.two_faces" : "hexagon.one_face");
    if (ref::res_of(h) % 2) COUNT("classIII"); else COUNT("classII");
}

static Case draw() {
    Case c;
    int res = ri(0, 15);
    gen::GCell g = gen::cellRes(res, {1, 1, 5, 10, 0, 0, 1, 1, 1});
    c.h = g.h;
    c.arm = g.arm;
    return c;
}

static void enumerate(const std::string &tier, int shard, int nshards, const std::function<void(const Case &)> &emit) {
    bool th = tier == "thorough";
    long idx = 0;
    Case c;
    int zero[16] = {0};
    for (int r = 0; r <= (th ? 5 : 3); r++)
        for (int bc = 0; bc < 122; bc++) {
            if ((idx++ % nshards) != shard) continue;
            uint64_t base = ref::make_cell(0, bc, zero);
            int64_t n = ref::children_count(base, r);
            for (int64_t i = 0; i < n; i++) { c.h = ref::child_at(base, r, i); emit(c); }
        }
    for (int r = 0; r <= 15; r++) {
        H3Index p[12];
        getPentagons(r, p);
        for (int i = 0; i < 12; i++) {
            if ((idx++ % nshards) != shard) continue;
            H3Index d[37] = {0};
            gridDisk(p[i], 3, d);
            for (H3Index h : d) if (h) { c.h = h; emit(c); }
        }
    }
    const gen::Ico &I = gen::ico();
    for (int r = 1; r <= (th ? 8 : 6); r++) {
        double w = gen::cellWidth(r);
        for (int e = 0; e < 30; e++) {
            if ((idx++ % nshards) != shard) continue;
            gen::V3 a = gen::toV(I.vert[I.edges[e][0]].lat, I.vert[I.edges[e][0]].lng), b = gen::toV(I.vert[I.edges[e][1]].lat, I.vert[I.edges[e][1]].lng);
            int steps = (int)(1.2 / (w * 0.5)) + 1;
            H3Index prev = 0;
            for (int s = 0; s <= steps; s++) {
                H3Index h = gen::cellAt(gen::toLL(gen::lerpN(a, b, (double)s / steps)), r);
                if (h == prev || !h) continue;
                prev = h;
                H3Index nb[7] = {0};
                gridDisk(h, 1, nb);
                for (H3Index x : nb) if (x) { c.h = x; emit(c); }
            }
        }
    }
}

int main(int argc, char **argv) {
    for (int f = 0; f < 20; f++) FC[f] = gq::fromLL(FACE_CENTRE[f][0], FACE_CENTRE[f][1]);
    Harness<Case> h;
    h.id = "C19";
    h.draw = draw;
    h.check = check;
    h.enumerate = enumerate;
    h.ser = ser;
    h.deser = deser;
    h.fp = [](const Case &c) { return mix64(c.h, 19); };
    h.selftest = []() {
        // the constants must be the 20 face centres derived from the pentagon positions (any numbering): bijection within 1e-9
        const gen::Ico &I = gen::ico();
        for (int f = 0; f < 20; f++) {
            bool found = false;
            for (int j = 0; j < I.nfaces; j++)
                if (gq::angle(FC[f], gq::fromLL(I.faceCentre[j].lat, I.faceCentre[j].lng)) < 1e-9Q) found = true;
            if (!found) { fprintf(stderr, "face-centre constant %d does not match the icosahedron derived from the pentagons\n", f); exit(2); }
        }
    };
    return harness_main(argc, argv, h);
}
