// C16 — cellsToLinkedMultiPolygon outlines exactly the union of the cells; destroy releases everything
#include "topo.hpp"
#include "allocmodel.hpp"
#include <set>
#include <map>
using namespace vh;
using gq::Q;

// the function under test comes from the second library copy (API prefix va_, allocator verif_*)
extern "C" H3Error va_cellsToLinkedMultiPolygon(const H3Index *h3Set, const int numHexes, LinkedGeoPolygon *out);
extern "C" void va_destroyLinkedMultiPolygon(LinkedGeoPolygon *polygon);

struct Case {
    int res = 0;
    int shape = 0, loc = 0;
    std::vector<uint64_t> cells;
};
static const char *SHAPES[] = {"filled-disk", "disk-with-random-removals", "ring+island(nested)", "several-components", "nested-rings+extra-components", "line/strip", "out-of-domain(error path)"};
static std::string ser(const Case &c) {
    std::string s = fmt("res=%d shape=%d loc=%d n=%zu cells=", c.res, c.shape, c.loc, c.cells.size());
    for (size_t i = 0; i < c.cells.size(); i++) s += fmt(i ? ",%llx" : "%llx", (unsigned long long)c.cells[i]);
    return s;
}
static bool deser(const std::string &s, Case &c) {
    size_t n = 0;
    if (sscanf(s.c_str(), "res=%d shape=%d loc=%d n=%zu", &c.res, &c.shape, &c.loc, &n) < 4) return false;
    size_t p = s.find("cells=");
    if (p == std::string::npos) return false;
    p += 6;
    c.cells.clear();
    while (p < s.size()) {
        char *end;
        unsigned long long v = strtoull(s.c_str() + p, &end, 16);
        if (end == s.c_str() + p) break;
        c.cells.push_back(v);
        p = (size_t)(end - s.c_str());
        if (p < s.size() && s[p] == ',') p++;
    }
    return c.cells.size() == n;
}

static topo::NeighborCache NC;

struct DSU {
    std::vector<int> p;
    explicit DSU(int n) : p(n) { for (int i = 0; i < n; i++) p[i] = i; }
    int f(int x) { while (p[x] != x) x = p[x] = p[p[x]]; return x; }
    void u(int a, int b) { p[f(a)] = f(b); }
};

// out-of-domain sets (duplicate, invalid or mixed-resolution members): the function may fail or succeed, but "when the function reports an
// error nothing is left allocated", and a success must be releasable by destroyLinkedMultiPolygon without a trace
static void errorPath(const Case &c) {
    am::M().reset();
    LinkedGeoPolygon out;
    memset(&out, 0xA5, sizeof out);
    std::vector<uint64_t> cells = c.cells;
    H3Error e = va_cellsToLinkedMultiPolygon(cells.data(), (int)cells.size(), &out);
    if (e != E_SUCCESS) {
        size_t leaked = am::M().live.size();
        long bad = am::M().badFrees;
        am::M().reset();
        COUNT("error_path.reported_error");
        NONTRIVIAL();
        CHECK(e <= 15, "code", "undocumented error code %u", e);
        CHECK(leaked == 0, "leak-on-error", "cellsToLinkedMultiPolygon failed with %u on an out-of-domain set and left %zu blocks allocated", e, leaked);
        CHECK(bad == 0, "bad-free", "cellsToLinkedMultiPolygon failed with %u and freed a block twice / a foreign pointer", e);
        return;
    }
    COUNT("error_path.accepted");
    va_destroyLinkedMultiPolygon(&out);
    size_t leaked = am::M().live.size();
    long bad = am::M().badFrees;
    am::M().reset();
    CHECK(leaked == 0, "leak", "after destroyLinkedMultiPolygon %zu blocks are still allocated (out-of-domain set that was accepted)", leaked);
    CHECK(bad == 0, "bad-free", "destroyLinkedMultiPolygon freed a block twice / a foreign pointer");
}

static void check(const Case &c) {
    size_t n = c.cells.size();
    if (c.shape == 6) { errorPath(c); return; }
    if (n == 0) { DISCARD(); return; }
    std::set<uint64_t> S(c.cells.begin(), c.cells.end());
    if (S.size() != n) { DISCARD(); return; }
    LatLng np = {gen::PI / 2, 0}, sp = {-gen::PI / 2, 0};
    H3Index poleN = gen::cellAt(np, c.res), poleS = gen::cellAt(sp, c.res);
    for (uint64_t h : c.cells) {
        if (!ref::valid_cell(h) || ref::res_of(h) != c.res || h == poleN || h == poleS) { DISCARD(); return; }
        LatLng g;
        cellToLatLng(h, &g);
        if (fabs(g.lat) > gen::PI / 2 - 1.6 * gen::cellWidth(c.res)) { DISCARD(); return; }  // footprint must not reach a pole: neither the pole cell nor its ring
    }
    {
        // stated narrowing: the set must fit into less than 162 degrees of longitude (no outline around a pole or around the globe;
        // the library models the result as planar lat/lng polygons)
        std::vector<double> lng;
        for (uint64_t h : c.cells) { LatLng g; cellToLatLng(h, &g); lng.push_back(g.lng); }
        std::sort(lng.begin(), lng.end());
        double maxgap = lng.front() + 2 * gen::PI - lng.back();
        for (size_t i = 1; i < lng.size(); i++) maxgap = std::max(maxgap, lng[i] - lng[i - 1]);
        if (2 * gen::PI - maxgap > 0.9 * gen::PI) { DISCARD(); return; }
    }
    if (NC.m.size() > 400000) NC.clear();
    NC.unprobeable = false;
    // components (edge-connected) and areas
    std::map<uint64_t, int> idx;
    for (size_t i = 0; i < n; i++) idx[c.cells[i]] = (int)i;
    DSU d((int)n);
    for (size_t i = 0; i < n; i++)
        for (H3Index b : NC.get(c.cells[i])) {
            auto it = idx.find(b);
            if (it != idx.end()) d.u((int)i, it->second);
        }
    if (NC.unprobeable) { DISCARD(); return; }
    std::map<int, Q> compArea;
    Q totalArea = 0, perim = 0;
    std::set<std::pair<uint64_t, uint64_t>> vbits;
    std::vector<gq::V> allVerts;
    for (size_t i = 0; i < n; i++) {
        CellBoundary cb;
        std::vector<gq::V> B = topo::boundaryQ(c.cells[i], &cb);
        Q a = gq::polyArea(B, topo::centreQ(c.cells[i]));
        compArea[d.f((int)i)] += a;
        totalArea += a;
        for (size_t k = 0; k < B.size(); k++) perim += gq::angle(B[k], B[(k + 1) % B.size()]);
        for (int k = 0; k < cb.numVerts; k++) {
            uint64_t x, y;
            memcpy(&x, &cb.verts[k].lat, 8);
            memcpy(&y, &cb.verts[k].lng, 8);
            vbits.insert({x, y});
            allVerts.push_back(B[(size_t)k]);
        }
    }
    size_t ncomp = compArea.size();

    am::M().reset();
    LinkedGeoPolygon out;
    memset(&out, 0xA5, sizeof out);  // poison: the function must initialise the head node itself (callers pass an uninitialised struct)
    H3Error e = va_cellsToLinkedMultiPolygon(c.cells.data(), (int)n, &out);
    if (e != E_SUCCESS) {
        size_t leaked = am::M().live.size();
        am::M().reset();
        CHECK(leaked == 0, "leak-on-error", "cellsToLinkedMultiPolygon failed with %u and left %zu blocks allocated", e, leaked);
        FAIL("code", "cellsToLinkedMultiPolygon failed with %u on %zu distinct valid cells of res %d (%zu components)", e, n, c.res, ncomp);
        return;
    }
    // walk the result
    struct Loop { std::vector<gq::V> v; Q area; };
    std::vector<std::vector<Loop>> polys;
    bool structureOk = true;
    std::string why;
    for (LinkedGeoPolygon *p = &out; p && structureOk; p = p->next) {
        if (!p->first) { if (p == &out && !p->next) break; structureOk = false; why = "polygon without loops"; break; }
        std::vector<Loop> loops;
        for (LinkedGeoLoop *l = p->first; l; l = l->next) {
            Loop L;
            for (LinkedLatLng *v = l->first; v; v = v->next) {
                uint64_t x, y;
                memcpy(&x, &v->vertex.lat, 8);
                memcpy(&y, &v->vertex.lng, 8);
                gq::V q = gq::fromLL(v->vertex.lat, v->vertex.lng);
                if (!vbits.count({x, y})) {
                    bool near = false;
                    for (auto &w : allVerts) if (gq::angle(q, w) <= 1e-12Q) { near = true; break; }
                    if (!near) { structureOk = false; why = fmt("outline vertex (%.17g, %.17g) is not a boundary vertex of any input cell", v->vertex.lat, v->vertex.lng); }
                }
                L.v.push_back(q);
                if (L.v.size() > 100 * n + 100) { structureOk = false; why = "loop does not terminate"; break; }
            }
            if (L.v.size() < 3) { structureOk = false; why = fmt("loop with %zu vertices", L.v.size()); }
            L.area = L.v.size() >= 3 ? gq::polyArea(L.v) : 0;
            loops.push_back(L);
        }
        polys.push_back(loops);
    }
    va_destroyLinkedMultiPolygon(&out);
    size_t leaked = am::M().live.size();
    long badFrees = am::M().badFrees;
    am::M().reset();
    CHECK(structureOk, "structure", "%s (res %d, %zu cells)", why.c_str(), c.res, n);
    CHECK(leaked == 0 && badFrees == 0, "leak", "after destroyLinkedMultiPolygon %zu blocks are still allocated (%ld invalid frees)", leaked, badFrees);
    CHECK(polys.size() == ncomp, "polygon-count", "%zu polygons for %zu edge-connected components (res %d, %zu cells)", polys.size(), ncomp, c.res, n);
    Q tol = 1e-9Q * totalArea + 1e-12Q * perim;
    Q enclosed = 0;
    std::vector<Q> polyAreas;
    size_t nholes = 0;
    for (auto &loops : polys) {
        CHECK(loops[0].area > 0, "winding", "outer loop is not counter-clockwise (signed area %.3e)", (double)loops[0].area);
        Q a = loops[0].area;
        for (size_t k = 1; k < loops.size(); k++) {
            CHECK(loops[k].area < 0, "winding", "hole %zu is not clockwise (signed area %.3e)", k, (double)loops[k].area);
            a += loops[k].area;
            nholes++;
            // the hole lies inside its polygon's outer loop: its first vertex is inside (gnomonic test around the hole vertex's own neighbourhood)
        }
        polyAreas.push_back(a);
        enclosed += a;
    }
    WORST("|enclosed - sum of cell areas| / tolerance", (double)(fabsq(enclosed - totalArea) / tol));
    CHECK(fabsq(enclosed - totalArea) <= tol, "area", "enclosed area %.17g but the cells sum to %.17g (diff %.3e, %zu polygons, %zu holes)", (double)enclosed, (double)totalArea, (double)(enclosed - totalArea), polys.size(), nholes);
    // every polygon encloses exactly one component: sorted areas agree (a hole attached to the wrong polygon changes two of them)
    std::vector<Q> ca;
    for (auto &kv : compArea) ca.push_back(kv.second);
    std::sort(ca.begin(), ca.end());
    std::sort(polyAreas.begin(), polyAreas.end());
    for (size_t i = 0; i < ca.size(); i++)
        CHECK(fabsq(ca[i] - polyAreas[i]) <= tol, "hole-assignment", "polygon areas do not match the component areas one to one (%.6e vs %.6e): a hole or island is attached to the wrong polygon", (double)polyAreas[i], (double)ca[i]);
    if (nholes > 0 || ncomp > 1) NONTRIVIAL();
    {
        static Counter *sh[6] = {nullptr};
        static std::string sn[6];
        int a = c.shape % 6;
        if (!sh[a]) { sn[a] = std::string("shape.") + SHAPES[a]; sh[a] = new Counter(sn[a].c_str()); }
        count_hit(*sh[a]);
    }
    if (nholes) COUNT("has_holes");
    if (nholes >= 2) COUNT("has>=2_holes");
    if (ncomp > 1) COUNT("several_components");
    bool pent = false, trans = false;
    double minLng = 10, maxLng = -10;
    for (uint64_t h : c.cells) { if (ref::is_pentagon(h)) pent = true; LatLng g; cellToLatLng(h, &g); minLng = std::min(minLng, g.lng); maxLng = std::max(maxLng, g.lng); }
    if (maxLng - minLng > gen::PI) trans = true;
    if (pent) COUNT("contains_pentagon");
    if (trans) COUNT("across_antimeridian");
    if (c.res <= 2) COUNT("res<=2");
    { double mx = 0; for (uint64_t h : c.cells) { LatLng g; if (!cellToLatLng(h, &g)) mx = std::max(mx, fabs(g.lat)); } if (mx > 1.3) COUNT("reaches_latitude>74deg"); if (mx > 1.5) COUNT("reaches_latitude>86deg"); }
    if (nholes && ncomp > 1) COUNT("holes_and_several_components");
}

static int KMAX = 6;

static std::vector<H3Index> diskDist(H3Index o, int k, std::vector<int> &dist) {
    int64_t n;
    maxGridDiskSize(k, &n);
    std::vector<H3Index> out((size_t)n, 0);
    dist.assign((size_t)n, 0);
    if (gridDiskDistances(o, k, out.data(), dist.data())) { out.clear(); dist.clear(); }
    return out;
}

static Case draw() {
    Case c;
    c.res = ri(0, 15);
    c.loc = rpick({3, 3, 3, 2});
    LatLng p;
    switch (c.loc) {
        case 1: cellToLatLng(gen::pentagonAt(c.res, ri(0, 11)), &p); p = gen::offset(p, runit() * 3 * gen::cellWidth(c.res), runit() * 6.28); break;
        case 2: p = gen::pointAntimeridian(c.res); break;
        case 3: p = gen::pointFaceEdge(c.res); break;
        default: p = gen::pointUniform(); break;
    }
    // high latitudes: one case in eight is centred at any distance (log-uniform) from a pole; the footprint never reaches it
    double latcap = 1.0, reach = 1.25;
    if (rpick({7, 1}) == 1) {
        p.lat = (ri(0, 1) ? 1 : -1) * (gen::PI / 2 - gen::logU(4 * gen::cellWidth(c.res) + 1e-6, 0.5));
        latcap = gen::PI / 2;
        reach = gen::PI / 2 - 2.5 * gen::cellWidth(c.res);
        c.loc = 4;
    }
    if (fabs(p.lat) > latcap) p.lat = p.lat > 0 ? latcap : -latcap;
    double w = gen::cellWidth(c.res);
    int kcap = (int)std::floor((reach - fabs(p.lat)) / (w * 1.3));  // keep the footprint away from the poles
    int kmax = std::max(0, std::min(KMAX, kcap));
    c.shape = rpick({2, 3, 3, 2, 3, 1});
    H3Index o = gen::cellAt(p, c.res);
    std::set<H3Index> S;
    auto addDisk = [&](H3Index org, int k, double premove) {
        std::vector<int> dist;
        std::vector<H3Index> d = diskDist(org, k, dist);
        uint64_t s = r64();
        for (H3Index h : d) if (h && !(premove > 0 && (double)(splitmix(s) >> 11) / 9007199254740992.0 < premove)) S.insert(h);
    };
    auto addRings = [&](H3Index org, int k) {  // alternating bands by distance: island, gap, ring, gap, ring ...
        std::vector<int> dist;
        std::vector<H3Index> d = diskDist(org, k, dist);
        int period = ri(2, 3), phase = ri(0, period - 1);
        for (size_t i = 0; i < d.size(); i++) if (d[i] && ((dist[i] + phase) % period) != 0) S.insert(d[i]);
    };
    auto farOrigin = [&](int steps) {
        LatLng q = gen::offset(p, std::min(steps * w * 1.1, 0.8), runit() * 6.28);
        if (fabs(q.lat) > std::min(latcap, fabs(p.lat) + 1e-9 > 1.0 ? fabs(p.lat) : 1.0)) q.lat = q.lat > 0 ? fabs(p.lat) : -fabs(p.lat);
        return gen::cellAt(q, c.res);
    };
    switch (c.shape) {
        case 0: addDisk(o, ri(0, kmax), 0); break;
        case 1: addDisk(o, ri(1, std::max(1, kmax)), std::vector<double>{0.1, 0.3, 0.5}[(size_t)ri(0, 2)]); break;
        case 2: addRings(o, std::max(2, ri(2, std::max(2, kmax)))); break;
        case 3: { int m = ri(2, 4); addDisk(o, ri(0, 2), 0); for (int i = 1; i < m; i++) addDisk(farOrigin(6 * i), ri(0, 2), rpick({1, 1}) ? 0.0 : 0.2); break; }
        case 4: { addRings(o, std::max(3, ri(3, std::max(3, kmax)))); int m = ri(1, 3); for (int i = 0; i < m; i++) addDisk(farOrigin(kmax + 4 + 5 * i), ri(0, 1), 0); if (rpick({1, 1})) addRings(farOrigin(2 * kmax + 12), 2); break; }
        default: {
            std::vector<int> dist;
            std::vector<H3Index> d = diskDist(o, std::max(1, kmax), dist);
            H3Index t = 0;
            for (H3Index h : d) if (h) t = h;
            int64_t sz = 0;
            if (t && gridPathCellsSize(o, t, &sz) == E_SUCCESS) { std::vector<H3Index> path((size_t)sz); if (gridPathCells(o, t, path.data()) == E_SUCCESS) for (H3Index h : path) S.insert(h); }
            S.insert(o);
            break;
        }
    }
    if (S.empty()) S.insert(o);
    c.cells.assign(S.begin(), S.end());
    // presentation order: generated permutation
    uint64_t s = r64();
    for (size_t i = c.cells.size(); i > 1; i--) std::swap(c.cells[i - 1], c.cells[(size_t)(splitmix(s) % i)]);
    if (rpick({9, 1}) == 1) {  // error path: the same set made out-of-domain in one way
        c.shape = 6;
        size_t i = (size_t)(r64() % c.cells.size());
        uint64_t h = c.cells[i];
        switch (rpick({3, 2, 2, 1, 1, 1})) {
            case 0: c.cells.push_back(h); break;                                                          // duplicate
            case 1: if (c.res) c.cells[i] = h | (7ULL << (3 * (15 - ri(1, c.res)))); else c.cells[i] = h | (1ULL << 63); break;  // digit 7
            case 2: c.cells[i] = c.res ? ref::parent(h, c.res - 1) : ref::center_child(h, 1); break;       // other resolution
            case 3: c.cells[i] = (h & ~(127ULL << 45)) | ((uint64_t)ri(122, 127) << 45); break;            // base cell out of range
            case 4: c.cells[i] = 0; break;                                                                  // null entry
            default: c.cells[i] = (h & ~(15ULL << 59)) | (2ULL << 59); break;                              // an edge index among cells
        }
    }
    return c;
}

static void enumerate(const std::string &tier, int shard, int nshards, const std::function<void(const Case &)> &emit) {
    // k=1 and k=2 disks (and the k=2 ring + centre) around every cell of res 0..2 (3 thorough) away from the poles, and around every pentagon at every res
    long idx = 0;
    int zero[16] = {0};
    auto emitDisk = [&](H3Index o, int res, int k, bool ring) {
        std::vector<int> dist;
        std::vector<H3Index> d = diskDist(o, k, dist);
        Case c;
        c.res = res;
        c.shape = ring ? 2 : 0;
        for (size_t i = 0; i < d.size(); i++) if (d[i] && (!ring || dist[i] != 1)) c.cells.push_back(d[i]);
        emit(c);
    };
    for (int r = 0; r <= (tier == "thorough" ? 3 : 2); r++)
        for (int bc = 0; bc < 122; bc++) {
            uint64_t base = ref::make_cell(0, bc, zero);
            int64_t n = ref::children_count(base, r);
            for (int64_t i = 0; i < n; i++) {
                if ((idx++ % nshards) != shard) continue;
                H3Index h = ref::child_at(base, r, i);
                emitDisk(h, r, 1, false);
                if (r >= 1) { emitDisk(h, r, 2, false); emitDisk(h, r, 2, true); }
            }
        }
    for (int r = 3; r <= 15; r++) {
        H3Index p[12];
        getPentagons(r, p);
        for (int i = 0; i < 12; i++) {
            if ((idx++ % nshards) != shard) continue;
            for (int k = 1; k <= 3; k++) { emitDisk(p[i], r, k, false); if (k >= 2) emitDisk(p[i], r, k, true); }
        }
    }
}

int main(int argc, char **argv) {
    for (int i = 1; i < argc; i++) if (std::string(argv[i]) == "thorough") KMAX = 25;
    Harness<Case> h;
    h.id = "C16";
    h.draw = draw;
    h.check = check;
    h.enumerate = enumerate;
    h.ser = ser;
    h.deser = deser;
    h.fp = [](const Case &c) { uint64_t x = (uint64_t)c.res; std::vector<uint64_t> v = c.cells; std::sort(v.begin(), v.end()); for (uint64_t h : v) x = mix64(x, h); return x; };
    return harness_main(argc, argv, h);
}
