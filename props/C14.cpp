// C14 — gridPathCells yields a contiguous shortest path of the announced length
#include "topo.hpp"
#include <set>
using namespace vh;

struct Case {
    int kind = 0;  // 0: origin h, BFS ball radius k, every cell of the ball as end; 1: explicit pair (h, q) — long paths, a=b, neighbours
    uint64_t h = 0, q = 0;
    int k = 0;
    int arm = -1;
};
static std::string ser(const Case &c) { return fmt("kind=%d h=%016llx k=%d q=%016llx arm=%d", c.kind, (unsigned long long)c.h, c.k, (unsigned long long)c.q, c.arm); }
static bool deser(const std::string &s, Case &c) {
    unsigned long long h, q = 0;
    int n = sscanf(s.c_str(), "kind=%d h=%llx k=%d q=%llx arm=%d", &c.kind, &h, &c.k, &q, &c.arm);
    c.h = h;
    c.q = q;
    return n >= 3;
}

static topo::NeighborCache NC;

// returns false on a reported failure; `known` = exact reference distance or -1
static bool pathCheck(H3Index a, H3Index b, int known, long &succeeded) {
    int64_t n = -1;
    H3Error es = gridPathCellsSize(a, b, &n);
    if (es != E_SUCCESS) {
        if (known == 0 || known == 1) { FAIL("must-succeed", "gridPathCellsSize(%016llx,%016llx) fails with %u although the cells are %s", (unsigned long long)a, (unsigned long long)b, es, known ? "neighbours" : "identical"); return false; }
        if (es > 15) { FAIL("code", "undocumented error code %u", es); return false; }
        return true;
    }
    if (n < 1 || n > 5000000) { if (n < 1) { FAIL("size", "gridPathCellsSize returned %lld", (long long)n); return false; } return true; }
    Guarded<H3Index> out((size_t)n, 0);
    H3Error e = gridPathCells(a, b, out.p());
    if (!out.intact()) { FAIL("guard", "gridPathCells(%016llx,%016llx) wrote beyond the announced size %lld (return code %u)", (unsigned long long)a, (unsigned long long)b, (long long)n, e); return false; }
    if (e != E_SUCCESS) {
        if (known == 0 || known == 1) { FAIL("must-succeed", "gridPathCells(%016llx,%016llx) fails with %u although the cells are %s", (unsigned long long)a, (unsigned long long)b, e, known ? "neighbours" : "identical"); return false; }
        return true;
    }
    succeeded++;
    int64_t d = -1;
    H3Error ed = gridDistance(a, b, &d);
    if (ed != E_SUCCESS || d + 1 != n) { FAIL("size", "gridPathCellsSize(%016llx,%016llx) = %lld but gridDistance = %lld (err %u)", (unsigned long long)a, (unsigned long long)b, (long long)n, (long long)d, ed); return false; }
    if (known >= 0 && n != known + 1) { FAIL("not-shortest", "gridPathCells(%016llx,%016llx) has %lld cells but the cells are %d neighbour steps apart", (unsigned long long)a, (unsigned long long)b, (long long)n, known); return false; }
    if (out[0] != a) { FAIL("endpoints", "path does not start with the start cell"); return false; }
    if (out[(size_t)n - 1] != b) { FAIL("endpoints", "path from %016llx to %016llx ends with %016llx", (unsigned long long)a, (unsigned long long)b, (unsigned long long)out[(size_t)n - 1]); return false; }
    for (int64_t i = 0; i < n; i++) {
        H3Index x = out[(size_t)i];
        if (!ref::valid_cell(x) || ref::res_of(x) != ref::res_of(a)) { FAIL("invalid", "path cell %lld = %016llx is not a valid cell of the same resolution", (long long)i, (unsigned long long)x); return false; }
        if (i > 0) {
            const std::vector<H3Index> &nb = NC.get(out[(size_t)i - 1]);
            if (NC.unprobeable) return true;  // caller discards
            if (std::find(nb.begin(), nb.end(), x) == nb.end()) { FAIL("not-contiguous", "path from %016llx to %016llx: cell %lld (%016llx) is not a neighbour of its predecessor %016llx", (unsigned long long)a, (unsigned long long)b, (long long)i, (unsigned long long)x, (unsigned long long)out[(size_t)i - 1]); return false; }
        }
    }
    return true;
}

static void check(const Case &c) {
    if (!ref::valid_cell(c.h)) { DISCARD(); return; }
    if (NC.m.size() > 600000) NC.clear();
    NC.unprobeable = false;
    long succeeded = 0;
    if (c.kind == 0) {
        std::unordered_map<H3Index, int> dist = topo::bfs(NC, c.h, c.k);
        if (NC.unprobeable) { COUNT("unprobeable(polar res>=14)"); DISCARD(); return; }
        bool hasPent = false, seam = false;
        for (auto &kv : dist) {
            if (ref::is_pentagon(kv.first)) hasPent = true;
            if (ref::unpack(kv.first).bc != ref::unpack(c.h).bc) seam = true;
            if (!pathCheck(c.h, kv.first, kv.second, succeeded)) return;
            if (kv.second <= 1 && !pathCheck(kv.first, c.h, kv.second, succeeded)) return;
            if (NC.unprobeable) { COUNT("unprobeable(polar res>=14)"); DISCARD(); return; }
        }
        if (hasPent || seam) NONTRIVIAL();
        COUNT("ball");
        if (hasPent) COUNT("ball.contains_pentagon");
        if (seam) COUNT("ball.crosses_base_cell_seam");
    } else {
        if (!ref::valid_cell(c.q) || ref::res_of(c.q) != ref::res_of(c.h)) { DISCARD(); return; }
        int known = c.h == c.q ? 0 : -1;
        if (!pathCheck(c.h, c.q, known, succeeded)) return;
        if (NC.unprobeable) { COUNT("unprobeable(polar res>=14)"); DISCARD(); return; }
        int64_t n = 0;
        if (gridPathCellsSize(c.h, c.q, &n) == E_SUCCESS && n >= 100) { COUNT("pair.long_path(>=100 cells)"); NONTRIVIAL(); }
        if (n >= 400) COUNT("pair.long_path(>=400 cells)");
        if (n >= 2000) COUNT("pair.long_path(>=2000 cells)");
        COUNT("pair");
        if (c.arm == 100) COUNT("pair.chord_past_a_pentagon(both ends in base cells around it)");
        if (c.arm == 101) COUNT("pair.all_pairs_within_K_of_a_pentagon");
    }
    static Counter paths("paths_validated");
    paths.n += (uint64_t)succeeded;
}

static int KMAX = 10;

static Case draw() {
    Case c;
    c.kind = rpick({3, 2, 2});
    if (c.kind == 2) {
        // chord past a pentagon: both ends at 0.1..0.5 rad from a pentagon centre (= in the base cells around it) in generated directions, so the
        // straight line clips the pentagon's base cell or its neighbours at every distance from the deleted wedge; hundreds of cells at res 5-7
        c.kind = 1;
        int res = rpick({1, 1, 2, 3, 2, 3, 2, 2, 1});
        LatLng pc;
        cellToLatLng(gen::pentagonAt(res, ri(0, 11)), &pc);
        double a1 = runit() * 2 * gen::PI, a2 = a1 + (0.2 + 1.6 * runit()) * gen::PI;
        c.h = gen::cellAt(gen::offset(pc, 0.1 + 0.4 * runit(), a1), res);
        c.q = gen::cellAt(gen::offset(pc, 0.1 + 0.4 * runit(), a2), res);
        c.arm = 100;
        return c;
    }
    int res = ri(0, 15);
    gen::GCell g = gen::cellRes(res, {2, 2, 7, 4, 1, 1, 1, 1, 1});
    c.h = g.h;
    c.arm = g.arm;
    if (c.kind == 0) c.k = ri(0, KMAX);
    else {
        // far end: a point 0..600 cell widths away in a generated direction
        LatLng p;
        cellToLatLng(c.h, &p);
        double steps = rpick({1, 2}) == 0 ? ri(0, 5) : ri(5, 600);
        if (res >= 6 && rpick({5, 1}) == 1) steps = gen::logU(600, 6000);  // very long lines (thousands of cells): products of coordinate x length leave 32 bits
        if (res <= 3) steps = std::min(steps, res == 0 ? 3.0 : res == 1 ? 8.0 : res == 2 ? 20.0 : 60.0);
        LatLng qv = gen::offset(p, steps * gen::cellWidth(res) * 0.8, runit() * 2 * gen::PI);
        c.q = gen::cellAt(qv, res);
    }
    return c;
}

static void enumerate(const std::string &tier, int shard, int nshards, const std::function<void(const Case &)> &emit) {
    bool th = tier == "thorough";
    long idx = 0;
    Case c;
    int zero[16] = {0};
    c.kind = 0;
    // complete over coarse resolutions up to moderate distances: every origin of res 0,1 (2 thorough) x ball radius 4 (8)
    for (int r = 0; r <= (th ? 2 : 1); r++)
        for (int bc = 0; bc < 122; bc++) {
            uint64_t base = ref::make_cell(0, bc, zero);
            int64_t n = ref::children_count(base, r);
            for (int64_t i = 0; i < n; i++) {
                if ((idx++ % nshards) != shard) continue;
                c.h = ref::child_at(base, r, i);
                c.k = th ? 8 : 4;
                emit(c);
            }
        }
    // chords past every pentagon: 16 directions x 2 radii around each of the 12 pentagons, every pair of end points, res 1..5 (7 thorough):
    // the line between two base cells around a pentagon clips the pentagon's base cell at every offset from its deleted wedge
    for (int r = 1; r <= (th ? 7 : 5); r++) {
        H3Index p[12];
        getPentagons(r, p);
        for (int i = 0; i < 12; i++) {
            LatLng pc;
            cellToLatLng(p[i], &pc);
            std::vector<H3Index> ring;
            for (int ri2 = 0; ri2 < 2; ri2++)
                for (int a = 0; a < 16; a++) ring.push_back(gen::cellAt(gen::offset(pc, ri2 ? 0.38 : 0.2, (a + 0.31 * ri2) * gen::PI / 8), r));
            for (size_t x = 0; x < ring.size(); x++)
                for (size_t y = x + 1; y < ring.size(); y++) {
                    if ((idx++ % nshards) != shard) continue;
                    c.kind = 1; c.h = ring[x]; c.q = ring[y]; c.k = 0; c.arm = 100;
                    emit(c);
                    std::swap(c.h, c.q);
                    emit(c);
                }
        }
    }
    // every ordered pair of cells within K neighbour steps of each pentagon, at one even and one odd resolution (the grid is self-similar:
    // what happens to a path at depth d of a base cell happens at every resolution of that parity). K reaches 1.5 base cells, so that
    // both ends can lie in two different hexagon base cells around the pentagon with the pentagon's base cell between them.
    {
        struct RK { int r, k; };
        std::vector<RK> plan = th ? std::vector<RK>{{2, 9}, {3, 16}, {4, 12}, {5, 10}} : std::vector<RK>{{2, 8}, {3, 14}};
        for (RK rk : plan) {
            H3Index p[12];
            getPentagons(rk.r, p);
            for (int i = 0; i < 12; i++) {
                int64_t n = 0;
                maxGridDiskSize(rk.k, &n);
                std::vector<H3Index> ball((size_t)n, 0);
                if (gridDisk(p[i], rk.k, ball.data())) continue;
                ball.erase(std::remove(ball.begin(), ball.end(), (H3Index)0), ball.end());
                std::sort(ball.begin(), ball.end());
                for (H3Index x : ball) {
                    if ((idx++ % nshards) != shard) continue;
                    for (H3Index y : ball) {
                        c.kind = 1; c.h = x; c.q = y; c.k = 0; c.arm = 101;
                        emit(c);
                    }
                }
            }
        }
    }
    c.kind = 0; c.arm = -1;
    for (int r = 0; r <= 15; r++) {
        H3Index p[12];
        getPentagons(r, p);
        for (int i = 0; i < 12; i++) {
            if ((idx++ % nshards) != shard) continue;
            H3Index d[19] = {0};
            gridDisk(p[i], 2, d);
            for (H3Index h : d) if (h) { c.h = h; c.k = th ? 8 : 4; emit(c); }
        }
    }
}

int main(int argc, char **argv) {
    for (int i = 1; i < argc; i++) if (std::string(argv[i]) == "thorough") KMAX = 20;
    Harness<Case> h;
    h.id = "C14";
    h.draw = draw;
    h.check = check;
    h.enumerate = enumerate;
    h.ser = ser;
    h.deser = deser;
    return harness_main(argc, argv, h);
}
