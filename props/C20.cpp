// C20 — String form of an index round-trips exactly (DESIGN.md §4 C20)
#include "harness.hpp"
#include <cerrno>
extern "C" {
#include "h3api.h"
}
using namespace vh;

struct Case {
    int kind = 0;       // 0 = format value into buffer of size sz; 1 = parse hex-digit string; 2 = parse must-reject string
    uint64_t v = 0;     // kind 0
    int sz = 17;        // kind 0
    std::string text;   // kind 1,2 (hex-escaped in the case file)
    int err = 0;        // ambient errno when the call is made: callers may arrive with any value left by earlier, unrelated calls
};
static std::string hexs(const std::string &t) {
    std::string o;
    for (unsigned char c : t) o += fmt("%02x", c);
    return o;
}
static std::string ser(const Case &c) { return fmt("kind=%d v=%016llx sz=%d text=%s errno=%d", c.kind, (unsigned long long)c.v, c.sz, hexs(c.text).c_str(), c.err); }
static bool deser(const std::string &s, Case &c) {
    unsigned long long v;
    char buf[4096] = {0};
    int n = sscanf(s.c_str(), "kind=%d v=%llx sz=%d text=%4000s", &c.kind, &v, &c.sz, buf);
    if (n < 3) return false;
    c.v = v;
    c.err = 0;
    { size_t pe = s.find(" errno="); if (pe != std::string::npos) c.err = atoi(s.c_str() + pe + 7); }
    c.text.clear();
    for (size_t i = 0; buf[i] && buf[i + 1]; i += 2) {
        unsigned x;
        sscanf(buf + i, "%2x", &x);
        c.text += (char)x;
    }
    return true;
}

// hand-written reference renderer / parser: no printf/strtoull family involved
static std::string ref_render(uint64_t v) {
    const char *d = "0123456789abcdef";
    if (v == 0) return "0";
    std::string s;
    while (v) {
        s.insert(s.begin(), d[v & 15]);
        v >>= 4;
    }
    return s;
}
static int hexval(char c) {
    if (c >= '0' && c <= '9') return c - '0';
    if (c >= 'a' && c <= 'f') return c - 'a' + 10;
    if (c >= 'A' && c <= 'F') return c - 'A' + 10;
    return -1;
}

static void check(const Case &c) {
    errno = c.err;
    if (c.err) COUNT("ambient_errno_nonzero");
    if (c.kind == 0) {
        COUNT("format");
        int sz = c.sz;
        Guarded<char> buf((size_t)sz, 0x5C);
        H3Error e = h3ToString(c.v, buf.p(), (size_t)sz);
        CHECK(buf.intact(), "guard", "h3ToString wrote outside a %d-byte buffer", sz);
        if (sz < 17) {
            COUNT("format.short_buffer");
            if (sz >= 1) NONTRIVIAL();
            CHECK(e == E_MEMORY_BOUNDS, "short-code", "h3ToString(sz=%d) returned %u, expected E_MEMORY_BOUNDS", sz, e);
            for (int i = 0; i < sz; i++) CHECK(buf[i] == 0x5C, "short-touched", "h3ToString(sz=%d) failed but modified byte %d", sz, i);
            return;
        }
        NONTRIVIAL();
        CHECK(e == E_SUCCESS, "fmt-code", "h3ToString(sz=%d) returned %u", sz, e);
        std::string want = ref_render(c.v);
        size_t len = strnlen(buf.p(), sz);
        CHECK(len < (size_t)sz, "fmt-nul", "no terminator within buffer");
        std::string got(buf.p(), len);
        CHECK(got == want, "fmt-text", "h3ToString(%016llx) wrote '%s', expected '%s'", (unsigned long long)c.v, got.c_str(), want.c_str());
        for (int i = (int)len + 1; i < sz; i++) CHECK(buf[i] == 0x5C, "fmt-tail", "byte %d beyond the terminator modified", i);
        H3Index back = 0x1234567887654321ULL;
        // exact-size heap copy of the string for the parser (ASan sees over-reads)
        Guarded<char> sb(len + 1);
        memcpy(sb.p(), got.c_str(), len + 1);
        H3Error e2 = stringToH3(sb.p(), &back);
        CHECK(e2 == E_SUCCESS && back == c.v, "roundtrip", "stringToH3('%s') -> err %u value %016llx", got.c_str(), e2, (unsigned long long)back);
        int lz = c.v ? __builtin_clzll(c.v) : 64;
        if (lz >= 4) COUNT("format.leading_zero_nibbles");
        if (isValidCell(c.v)) COUNT("format.valid_cell");
        if (isValidDirectedEdge(c.v)) COUNT("format.valid_edge");
        if (isValidVertex(c.v)) COUNT("format.valid_vertex");
    } else if (c.kind == 1) {
        COUNT("parse.hex");
        NONTRIVIAL();
        uint64_t want = 0;
        for (char ch : c.text) want = (want << 4) | (uint64_t)hexval(ch);
        Guarded<char> sb(c.text.size() + 1);
        memcpy(sb.p(), c.text.c_str(), c.text.size() + 1);
        H3Index out = 0x1234567887654321ULL;
        H3Error e = stringToH3(sb.p(), &out);
        CHECK(e == E_SUCCESS && out == want, "parse-hex", "stringToH3('%s') -> err %u value %016llx expected %016llx", c.text.c_str(), e, (unsigned long long)out, (unsigned long long)want);
        bool upper = false;
        for (char ch : c.text) if (ch >= 'A' && ch <= 'F') upper = true;
        if (upper) COUNT("parse.hex.uppercase");
    } else {
        COUNT("parse.reject");
        if (!c.text.empty()) NONTRIVIAL();
        Guarded<char> sb(c.text.size() + 1);
        memcpy(sb.p(), c.text.c_str(), c.text.size() + 1);
        H3Index out = 0x1234567887654321ULL;
        H3Error e = stringToH3(sb.p(), &out);
        CHECK(e != E_SUCCESS, "parse-accept", "stringToH3 accepted text that does not start with a hex number (hex bytes %s)", hexs(c.text).c_str());
        CHECK(e <= 15, "parse-code", "undocumented error code %u", e);
        CHECK(out == 0x1234567887654321ULL, "parse-result", "stringToH3 failed but wrote a result");
    }
}

// structured 64-bit values
static uint64_t drawValue() {
    switch (rpick({2, 2, 2, 2, 2, 1, 3})) {
        case 0: return r64();
        case 1: return 1ULL << ri(0, 63);
        case 2: return (1ULL << ri(0, 63)) | (1ULL << ri(0, 63));
        case 3: {  // leading-zero length 0..64 with random tail
            int lz = ri(0, 64);
            if (lz == 64) return 0;
            uint64_t top = 1ULL << (63 - lz);
            return top | (r64() & (top - 1));
        }
        case 4: {  // 2^k +- 1
            uint64_t p = 1ULL << ri(0, 63);
            return rbool() ? p + 1 : p - 1;
        }
        case 5: {
            static const uint64_t sp[] = {0, 1, 0xf, 0x10, ~0ULL, 0x7fffffffffffffffULL, 0x8000000000000000ULL, 0xabcdef, 0xABCDEF0123456789ULL};
            return sp[ri(0, 8)];
        }
        default: {  // a valid cell / edge / vertex from the library
            int res = ri(0, 15);
            LatLng g = {(runit() - 0.5) * 3.14159, (runit() - 0.5) * 6.28318};
            H3Index h = 0;
            latLngToCell(&g, res, &h);
            int k = ri(0, 2);
            if (k == 1) {
                H3Index ed[6];
                if (originToDirectedEdges(h, ed) == E_SUCCESS) return ed[ri(0, 5)] ? ed[ri(0, 5)] : h;
            } else if (k == 2) {
                H3Index vx[6];
                if (cellToVertexes(h, vx) == E_SUCCESS) return vx[ri(0, 4)];
            }
            return h;
        }
    }
}

static Case draw() {
    Case c;
    c.kind = rpick({6, 2, 2});
    static const int ERRS[] = {0, ERANGE, EINVAL, EDOM, ENOMEM, EILSEQ, EOVERFLOW, 1, 9999};
    c.err = rpick({2, 1}) == 0 ? 0 : ERRS[ri(0, 8)];
    if (c.kind == 0) {
        c.v = drawValue();
        c.sz = rpick({3, 2}) == 0 ? ri(17, 32) : ri(0, 16);
    } else if (c.kind == 1) {
        int n = ri(1, 16);
        const char *d = "0123456789abcdefABCDEF";
        for (int i = 0; i < n; i++) c.text += d[ri(0, 21)];
    } else {
        // must-reject: no hexadecimal digit where the number would have to start. scanf-style parsing may skip white space and accept
        // one sign; after that, the end of the text or any non-hex byte means "does not start with a hexadecimal number".
        static const char WS[] = {' ', '\t', '\n', '\v', '\f', '\r'};
        int shape = rpick({3, 2, 2});
        if (shape == 0) {  // first char printable and neither hex, space nor sign (or the empty string)
            int n = ri(0, 6);
            for (int i = 0; i < n; i++) {
                char ch;
                if (i == 0) {
                    do { ch = (char)ri(33, 126); } while (hexval(ch) >= 0 || ch == '+' || ch == '-');
                } else
                    ch = (char)ri(1, 255);
                c.text += ch;
            }
        } else {  // white space* sign? then end of text or a non-hex byte, then anything
            int nws = shape == 1 ? ri(1, 4) : ri(0, 2);
            for (int i = 0; i < nws; i++) c.text += WS[ri(0, 5)];
            bool sign = shape == 2 || rbool();
            if (sign) c.text += rbool() ? '+' : '-';
            if (rpick({1, 2})) {
                char ch;
                do { ch = (char)ri(1, 255); } while (hexval(ch) >= 0 || (!sign && (ch == '+' || ch == '-' || strchr(" \t\n\v\f\r", ch))));
                c.text += ch;
                int n = ri(0, 4);
                for (int i = 0; i < n; i++) c.text += (char)ri(1, 255);
            }
        }
    }
    return c;
}

static void enumerate(const std::string &tier, int shard, int nshards, const std::function<void(const Case &)> &emit) {
    // complete strata: every single-bit and two-bit value x all buffer sizes 0..32;
    // every leading-zero length with all-ones tail; every 1..16-digit repetition of each hex digit
    long idx = 0;
    auto E = [&](const Case &c) { if ((idx++ % nshards) == shard) emit(c); };
    {   // the round trip of extreme values under every ambient errno (a parser that consults errno must clear it first)
        static const int ERRS[] = {0, ERANGE, EINVAL, EDOM, ENOMEM, EILSEQ, EOVERFLOW};
        static const uint64_t XV[] = {0ULL, 1ULL, ~0ULL, ~0ULL - 1, 0x7fffffffffffffffULL, 0x8000000000000000ULL, 0xffffffffULL, 0x100000000ULL, 0x08001fffffffffffULL};
        Case x;
        for (int e : ERRS)
            for (uint64_t v : XV) { x.kind = 0; x.v = v; x.sz = 17; x.err = e; E(x); }
    }
    {   // every (white space, sign) prefix of length <= 2 followed by the end of the text or one non-hex character: must be rejected
        static const char *PRE[] = {" ", "\t", "\n", "\r", "\v", "\f", "+", "-", " +", " -", "\t-", "\n+", "  ", " \t"};
        static const char *TAIL[] = {"", "z", "g", "*", "x", "G", ".", "_", "\x80"};
        Case x;
        x.kind = 2;
        for (const char *p : PRE)
            for (const char *t : TAIL) { x.text = std::string(p) + t; E(x); }
    }
    Case c;
    c.kind = 0;
    for (int sz = 0; sz <= 32; sz++) {
        c.sz = sz;
        c.v = 0; E(c);
        for (int i = 0; i < 64; i++) {
            c.v = 1ULL << i; E(c);
            c.v = (i == 63) ? ~0ULL : ((1ULL << (i + 1)) - 1); E(c);
            for (int j = 0; j < i; j++) { c.v = (1ULL << i) | (1ULL << j); E(c); }
        }
    }
    c.kind = 1;
    const char *d = "0123456789abcdefABCDEF";
    for (int n = 1; n <= 16; n++)
        for (int k = 0; k < 22; k++) { c.text.assign((size_t)n, d[k]); E(c); }
    c.kind = 2;
    c.text = ""; E(c);
    for (int ch = 33; ch <= 126; ch++) {
        if (hexval((char)ch) >= 0 || ch == '+' || ch == '-') continue;
        c.text.assign(1, (char)ch); E(c);
        c.text += "8001"; E(c);
    }
    (void)tier;
}

int main(int argc, char **argv) {
    Harness<Case> h;
    h.id = "C20";
    h.draw = draw;
    h.check = check;
    h.enumerate = enumerate;
    h.ser = ser;
    h.deser = deser;
    h.fp = [](const Case &c) { return mix64(c.kind == 0 ? c.v : fnv(c.text), (uint64_t)c.kind * 64 + (uint64_t)c.sz); };
    return harness_main(argc, argv, h);
}
