// C05 — gridDisk family equals breadth-first search on a symmetric neighbour graph
#include "topo.hpp"
#include <set>
using namespace vh;

struct Case {
    int kind = 0;  // 0: k=1 neighbourhood + areNeighborCells of cell h (far cell = q); 1: (origin h, k) whole family
    uint64_t h = 0, q = 0;
    int k = 1;
    int arm = -1;
};
static std::string ser(const Case &c) { return fmt("kind=%d h=%016llx k=%d q=%016llx arm=%d", c.kind, (unsigned long long)c.h, c.k, (unsigned long long)c.q, c.arm); }
static bool deser(const std::string &s, Case &c) {
    unsigned long long h, q = 0;
    int n = sscanf(s.c_str(), "kind=%d h=%llx k=%d q=%llx arm=%d", &c.kind, &h, &c.k, &q, &c.arm);
    c.h = h;
    c.q = q;
    return n >= 3;
}

static topo::NeighborCache NC;
static int SAFE_KMAX = 30;

static void neighbourhood(const Case &c) {
    H3Index a = c.h;
    if (NC.m.size() > 400000) NC.clear();
    NC.unprobeable = false;
    const std::vector<H3Index> geo = NC.get(a);
    if (NC.unprobeable) { COUNT("unprobeable(polar res>=14)"); DISCARD(); return; }
    bool pent = ref::is_pentagon(a);
    Guarded<H3Index> out(7, 0);
    H3Error e = gridDisk(a, 1, out.p());
    CHECK(out.intact(), "guard", "gridDisk(k=1) overran 7 slots");
    CHECK(e == E_SUCCESS, "disk1-code", "gridDisk(%016llx,1) failed with %u", (unsigned long long)a, e);
    std::set<H3Index> lib;
    int self = 0;
    for (int i = 0; i < 7; i++) {
        H3Index x = out[i];
        if (!x) continue;
        if (x == a) { self++; continue; }
        CHECK(ref::valid_cell(x) && ref::res_of(x) == ref::res_of(a), "disk1-valid", "gridDisk(%016llx,1) returned %016llx (invalid or other resolution)", (unsigned long long)a, (unsigned long long)x);
        CHECK(lib.insert(x).second, "disk1-dup", "gridDisk(%016llx,1) returned %016llx twice", (unsigned long long)a, (unsigned long long)x);
    }
    CHECK(self == 1, "disk1-self", "gridDisk(%016llx,1) holds the origin %d times", (unsigned long long)a, self);
    CHECK((int)lib.size() == (pent ? 5 : 6), "disk1-count", "gridDisk(%016llx,1) yields %zu neighbours, expected %d", (unsigned long long)a, lib.size(), pent ? 5 : 6);
    std::set<H3Index> g(geo.begin(), geo.end());
    if (lib != g) {
        for (H3Index x : lib) CHECK(g.count(x), "disk1-geo", "gridDisk(%016llx,1) returned %016llx which shares no boundary segment with it (geometric neighbours: %zu)", (unsigned long long)a, (unsigned long long)x, g.size());
        for (H3Index x : g) CHECK(lib.count(x), "disk1-geo", "%016llx lies across an edge of %016llx but gridDisk(k=1) omits it", (unsigned long long)x, (unsigned long long)a);
    }
    // symmetry and areNeighborCells
    for (H3Index b : lib) {
        H3Index o2[7] = {0};
        CHECK(gridDisk(b, 1, o2) == E_SUCCESS, "disk1-code", "gridDisk failed on neighbour");
        bool back = false;
        for (H3Index x : o2) if (x == a) back = true;
        CHECK(back, "symmetry", "%016llx is a neighbour of %016llx but not vice versa", (unsigned long long)b, (unsigned long long)a);
        int r1 = -1, r2 = -1;
        CHECK(areNeighborCells(a, b, &r1) == E_SUCCESS && r1 == 1, "areneighbor", "areNeighborCells(%016llx,%016llx) = %d", (unsigned long long)a, (unsigned long long)b, r1);
        CHECK(areNeighborCells(b, a, &r2) == E_SUCCESS && r2 == 1, "areneighbor", "areNeighborCells(%016llx,%016llx) = %d", (unsigned long long)b, (unsigned long long)a, r2);
    }
    int r = -1;
    CHECK(areNeighborCells(a, a, &r) == E_SUCCESS && r == 0, "areneighbor-self", "areNeighborCells(a,a) = %d", r);
    // distance-2 cells (from the geometric graph) are not neighbours
    int d2 = 0;
    for (H3Index b : geo)
        for (H3Index x : NC.get(b)) {
            if (x == a || g.count(x)) continue;
            r = -1;
            H3Error e2 = areNeighborCells(a, x, &r);
            CHECK(e2 == E_SUCCESS && r == 0, "areneighbor-false", "areNeighborCells(%016llx,%016llx) = %d (err %u) for cells two steps apart", (unsigned long long)a, (unsigned long long)x, r, e2);
            d2++;
        }
    // siblings that are not adjacent, and a far cell
    if (c.q && c.q != a && !g.count(c.q) && ref::res_of(c.q) == ref::res_of(a)) {
        r = -1;
        H3Error e2 = areNeighborCells(a, c.q, &r);
        CHECK(e2 == E_SUCCESS && r == 0, "areneighbor-false", "areNeighborCells(%016llx,%016llx) = %d (err %u) for non-adjacent cells", (unsigned long long)a, (unsigned long long)c.q, r, e2);
    }
    NONTRIVIAL();
    COUNT("k1");
    if (pent) COUNT("k1.pentagon");
    else if (lib.size() == 6) {
        bool nearPent = false;
        for (H3Index b : lib) if (ref::is_pentagon(b)) nearPent = true;
        if (nearPent) COUNT("k1.pentagon_neighbour");
    }
    bool seam = false;
    for (H3Index b : lib) if (ref::unpack(b).bc != ref::unpack(a).bc) seam = true;
    if (seam) COUNT("k1.base_cell_seam");
}

static void family(const Case &c) {
    H3Index o = c.h;
    int k = c.k;
    if (NC.m.size() > 400000) NC.clear();
    NC.unprobeable = false;
    std::unordered_map<H3Index, int> refd = topo::bfs(NC, o, k);
    if (NC.unprobeable) { COUNT("unprobeable(polar res>=14)"); DISCARD(); return; }
    int64_t n = 0;
    CHECK(maxGridDiskSize(k, &n) == E_SUCCESS && n == 3 * (int64_t)k * (k + 1) + 1, "maxsize", "maxGridDiskSize(%d) = %lld", k, (long long)n);
    CHECK((int64_t)refd.size() <= n, "maxsize", "BFS ball has %zu cells, more than maxGridDiskSize(%d)", refd.size(), k);
    bool hasPent = false, seam = false;
    for (auto &kv : refd) {
        if (ref::is_pentagon(kv.first)) hasPent = true;
        if (ref::unpack(kv.first).bc != ref::unpack(o).bc) seam = true;
    }
    auto sameSet = [&](const char *fn, H3Index *cells, int *dist) -> bool {
        std::unordered_set<H3Index> seen;
        for (int64_t i = 0; i < n; i++) {
            H3Index x = cells[i];
            if (!x) continue;
            if (!seen.insert(x).second) { FAIL("dup", "%s(%016llx,%d) returned %016llx twice", fn, (unsigned long long)o, k, (unsigned long long)x); return false; }
            auto it = refd.find(x);
            if (it == refd.end()) { FAIL("extra", "%s(%016llx,%d) returned %016llx which is more than %d neighbour steps away", fn, (unsigned long long)o, k, (unsigned long long)x, k); return false; }
            if (dist && dist[i] != it->second) { FAIL("distance", "%s(%016llx,%d): cell %016llx reported at distance %d, BFS says %d", fn, (unsigned long long)o, k, (unsigned long long)x, dist[i], it->second); return false; }
        }
        if (seen.size() != refd.size()) {
            for (auto &kv : refd) if (!seen.count(kv.first)) { FAIL("missing", "%s(%016llx,%d) omits %016llx which is %d steps away", fn, (unsigned long long)o, k, (unsigned long long)kv.first, kv.second); return false; }
        }
        return true;
    };
    {
        Guarded<H3Index> out((size_t)n, 0);
        H3Error e = gridDisk(o, k, out.p());
        CHECK(out.intact(), "guard", "gridDisk overran maxGridDiskSize slots");
        CHECK(e == E_SUCCESS, "code", "gridDisk(%016llx,%d) failed with %u", (unsigned long long)o, k, e);
        if (!sameSet("gridDisk", out.p(), nullptr)) return;
    }
    {
        Guarded<H3Index> out((size_t)n, 0);
        Guarded<int> dist((size_t)n, 0);
        H3Error e = gridDiskDistances(o, k, out.p(), dist.p());
        CHECK(out.intact() && dist.intact(), "guard", "gridDiskDistances overran");
        CHECK(e == E_SUCCESS, "code", "gridDiskDistances(%016llx,%d) failed with %u", (unsigned long long)o, k, e);
        if (!sameSet("gridDiskDistances", out.p(), dist.p())) return;
    }
    if (k <= SAFE_KMAX) {
        Guarded<H3Index> out((size_t)n, 0);
        Guarded<int> dist((size_t)n, 0);
        H3Error e = gridDiskDistancesSafe(o, k, out.p(), dist.p());
        CHECK(out.intact() && dist.intact(), "guard", "gridDiskDistancesSafe overran");
        CHECK(e == E_SUCCESS, "code", "gridDiskDistancesSafe(%016llx,%d) failed with %u", (unsigned long long)o, k, e);
        if (!sameSet("gridDiskDistancesSafe", out.p(), dist.p())) return;
    }
    // ring-ordered variants: error, or exactly ring r in slots 3r(r-1)+1 .. 3r(r+1)
    auto ringOrder = [&](const char *fn, H3Index *cells, int *dist) -> bool {
        if (cells[0] != o) { FAIL("ringorder", "%s(%016llx,%d) succeeded but slot 0 is not the origin", fn, (unsigned long long)o, k); return false; }
        std::unordered_set<H3Index> seen;
        for (int r = 0; r <= k; r++) {
            int64_t lo = r == 0 ? 0 : 3 * (int64_t)r * (r - 1) + 1, hi = r == 0 ? 0 : 3 * (int64_t)r * (r + 1);
            for (int64_t i = lo; i <= hi; i++) {
                H3Index x = cells[i];
                auto it = x ? refd.find(x) : refd.end();
                if (it == refd.end() || it->second != r) { FAIL("unsafe-wrong", "%s(%016llx,%d) succeeded but slot %lld holds %016llx which is not at distance %d (BFS: %d)", fn, (unsigned long long)o, k, (long long)i, (unsigned long long)x, r, it == refd.end() ? -1 : it->second); return false; }
                if (!seen.insert(x).second) { FAIL("unsafe-wrong", "%s(%016llx,%d) succeeded but repeats %016llx", fn, (unsigned long long)o, k, (unsigned long long)x); return false; }
                if (dist && dist[i] != r) { FAIL("unsafe-wrong", "%s distance slot %lld = %d, expected %d", fn, (long long)i, dist[i], r); return false; }
            }
        }
        if (seen.size() != refd.size()) { FAIL("unsafe-wrong", "%s(%016llx,%d) succeeded with %zu cells but the disk has %zu", fn, (unsigned long long)o, k, seen.size(), refd.size()); return false; }
        return true;
    };
    int unsafeOk = 0, unsafeErr = 0;
    {
        Guarded<H3Index> out((size_t)n, 0);
        H3Error e = gridDiskUnsafe(o, k, out.p());
        CHECK(out.intact(), "guard", "gridDiskUnsafe overran");
        if (e == E_SUCCESS) { unsafeOk++; if (!ringOrder("gridDiskUnsafe", out.p(), nullptr)) return; } else unsafeErr++;
    }
    {
        Guarded<H3Index> out((size_t)n, 0);
        Guarded<int> dist((size_t)n, 0);
        H3Error e = gridDiskDistancesUnsafe(o, k, out.p(), dist.p());
        CHECK(out.intact() && dist.intact(), "guard", "gridDiskDistancesUnsafe overran");
        if (e == E_SUCCESS) { unsafeOk++; if (!ringOrder("gridDiskDistancesUnsafe", out.p(), dist.p())) return; } else unsafeErr++;
    }
    {
        size_t rn = k == 0 ? 1 : 6 * (size_t)k;
        Guarded<H3Index> ring(rn, 0);
        H3Error e = gridRingUnsafe(o, k, ring.p());
        CHECK(ring.intact(), "guard", "gridRingUnsafe overran 6k slots");
        if (e == E_SUCCESS) {
            unsafeOk++;
            std::unordered_set<H3Index> seen;
            size_t want = 0;
            for (auto &kv : refd) if (kv.second == k) want++;
            // root-cause classifier for the known finding: the closing test of the ring walk cannot see pentagons that lie
            // strictly inside the ring; with 6 or more of them enclosed (ring around half the globe or more) the walk closes again
            int pin = 0, pon = 0;
            for (auto &kv : refd) if (ref::is_pentagon(kv.first)) { if (kv.second < k) pin++; else if (kv.second == k) pon++; }
            // ... from a HEXAGON origin: from a pentagon origin the walk is refused up front (E_PENTAGON) on the pinned tree, so a successful
            // wrong ring from a pentagon is a different defect and is never excluded
            const char *rsig = (pin >= 6 && pon == 0 && !ref::is_pentagon(o)) ? "ring-encloses-6+-pentagons" : "ring-wrong";
            for (size_t i = 0; i < rn; i++) {
                H3Index x = ring[i];
                auto it = x ? refd.find(x) : refd.end();
                CHECK(it != refd.end() && it->second == k, rsig, "gridRingUnsafe(%016llx,%d) succeeded but returned %016llx which is at distance %d, not %d", (unsigned long long)o, k, (unsigned long long)x, it == refd.end() ? -1 : it->second, k);
                CHECK(seen.insert(x).second, rsig, "gridRingUnsafe(%016llx,%d) succeeded but repeats %016llx", (unsigned long long)o, k, (unsigned long long)x);
            }
            CHECK(seen.size() == want, rsig, "gridRingUnsafe(%016llx,%d) succeeded with %zu cells but the ring has %zu", (unsigned long long)o, k, seen.size(), want);
        } else unsafeErr++;
    }
    if (k <= 6) {
        // gridDisksUnsafe over origin + up to two neighbours
        std::vector<H3Index> set = {o};
        for (H3Index x : NC.get(o)) if (set.size() < 3) set.push_back(x);
        // the input is a list, not a set: repeated origins (adjacent and non-adjacent), chosen by the origin so that replay is exact
        switch (vh::mix64(o, (uint64_t)k) % 4) {
            case 1: set.insert(set.begin() + 1, o); break;           // {o, o, n1, n2}
            case 2: set.push_back(o); break;                          // {o, n1, n2, o}
            case 3: if (set.size() > 1) set.push_back(set.back()); break;  // {o, n1, n2, n2}
            default: break;
        }
        // all reference balls first: an unprobeable cell anywhere makes the case undecidable
        for (size_t s = 1; s < set.size(); s++) topo::bfs(NC, set[s], k);
        if (NC.unprobeable) { COUNT("unprobeable(polar res>=14)"); DISCARD(); return; }
        Guarded<H3Index> out((size_t)n * set.size(), 0);
        H3Error e = gridDisksUnsafe(set.data(), (int)set.size(), k, out.p());
        CHECK(out.intact(), "guard", "gridDisksUnsafe overran");
        if (e == E_SUCCESS) {
            unsafeOk++;
            for (size_t s = 0; s < set.size(); s++) {
                std::unordered_map<H3Index, int> save;
                if (s > 0) { save = refd; refd = topo::bfs(NC, set[s], k); }
                H3Index keep = o;
                o = set[s];
                bool ok = ringOrder("gridDisksUnsafe", out.p() + s * (size_t)n, nullptr);
                o = keep;
                if (s > 0) refd = save;
                if (!ok) return;
            }
        } else unsafeErr++;
    }
    if (hasPent || seam) NONTRIVIAL();
    COUNT("family");
    if (hasPent) COUNT("family.disk_contains_pentagon");
    if (seam) COUNT("family.disk_crosses_base_cell_seam");
    if (hasPent && unsafeOk) COUNT("family.unsafe_succeeded_with_pentagon_in_disk");
    if (unsafeErr) COUNT("family.unsafe_reported_error");
    if ((int64_t)refd.size() < n && !hasPent) COUNT("family.disk_wraps_globe");
    if (k >= 10) COUNT("family.k>=10");
}

static void check(const Case &c) {
    if (!ref::valid_cell(c.h)) { DISCARD(); return; }
    if (c.kind == 0) neighbourhood(c);
    else family(c);
}

static int KMAX = 8;

static Case draw() {
    Case c;
    c.kind = rpick({1, 2});
    int res = ri(0, 15);
    gen::GCell g = gen::cellRes(res, {2, 2, 6, 5, 1, 1, 1, 1, 1});
    c.h = g.h;
    c.arm = g.arm;
    if (c.kind == 0) {
        int w = rpick({1, 1, 1});
        if (w == 0) c.q = gen::cellRes(res).h;
        else if (w == 1 && res > 0) {  // a sibling
            uint64_t par = ref::parent(c.h, res - 1);
            int64_t n = ref::children_count(par, res);
            c.q = ref::child_at(par, res, ri(0, (int)n - 1));
        }
    } else {
        c.k = rpick({3, 1}) == 0 ? ri(0, KMAX) : ri(0, 3);
        if (res <= 2 && rpick({1, 1})) c.k = ri(0, res == 0 ? 12 : res == 1 ? 28 : 40);  // wrap the globe
    }
    return c;
}

static void enumerate(const std::string &tier, int shard, int nshards, const std::function<void(const Case &)> &emit) {
    bool th = tier == "thorough";
    long idx = 0;
    Case c;
    int zero[16] = {0};
    // whole globe: every cell of res 0..2 (k=1 checks); every origin of res 0 (and res 1) with every k up to beyond the diameter;
    // res 2: every pentagon and a deterministic sample of origins with k up to 72 (thorough: every origin, selected k)
    for (int r = 0; r <= (th ? 3 : 2); r++)
        for (int bc = 0; bc < 122; bc++) {
            if ((idx++ % nshards) != shard) continue;
            uint64_t base = ref::make_cell(0, bc, zero);
            int64_t n = ref::children_count(base, r);
            for (int64_t i = 0; i < n; i++) { c.kind = 0; c.h = ref::child_at(base, r, i); c.q = 0; emit(c); }
        }
    c.kind = 1;
    for (int bc = 0; bc < 122; bc++)
        for (int k = 0; k <= 12; k++) {
            if ((idx++ % nshards) != shard) continue;
            c.h = ref::make_cell(0, bc, zero); c.k = k; emit(c);
        }
    for (int bc = 0; bc < 122; bc++) {
        uint64_t base = ref::make_cell(0, bc, zero);
        int64_t n = ref::children_count(base, 1);
        for (int64_t i = 0; i < n; i++)
            for (int k = 0; k <= 30; k += (th ? 1 : 3)) {
                if ((idx++ % nshards) != shard) continue;
                c.h = ref::child_at(base, 1, i); c.k = k; emit(c);
            }
    }
    for (int bc = 0; bc < 122; bc += (th ? 1 : 4)) {
        uint64_t base = ref::make_cell(0, bc, zero);
        int64_t n = ref::children_count(base, 2);
        for (int64_t i = 0; i < n; i += (th ? 3 : 11))
            for (int k : {2, 5, 9, 14, 23, 37, 55, 72}) {
                if ((idx++ % nshards) != shard) continue;
                c.h = ref::child_at(base, 2, i); c.k = k; emit(c);
            }
    }
    // every pentagon and every pentagon neighbour at every res, k = 0..Kp
    int Kp = th ? 12 : 5;
    for (int r = 0; r <= 15; r++) {
        H3Index p[12];
        getPentagons(r, p);
        for (int i = 0; i < 12; i++) {
            H3Index d[7] = {0};
            gridDisk(p[i], 1, d);
            for (H3Index h : d) {
                if (!h) continue;
                if ((idx++ % nshards) != shard) continue;
                c.kind = 0; c.h = h; c.q = 0; emit(c);
                c.kind = 1;
                for (int k = 0; k <= Kp; k++) { c.k = k; emit(c); }
            }
        }
    }
}

int main(int argc, char **argv) {
    for (int i = 1; i < argc; i++) if (std::string(argv[i]) == "thorough") KMAX = 40;
    Harness<Case> h;
    h.id = "C05";
    h.draw = draw;
    h.check = check;
    h.enumerate = enumerate;
    h.ser = ser;
    h.deser = deser;
    h.fp = [](const Case &c) { return mix64(mix64(c.h, c.q), (uint64_t)c.kind * 1000 + (uint64_t)c.k); };
    return harness_main(argc, argv, h);
}
