// C15 — containment modes mean what they say and are nested; size bound holds
#include "polyq.hpp"
#include <set>
#include <map>
using namespace vh;
using gq::Q;
using pq::P2;

struct Case {
    int res = 0;
    uint32_t badflags = 0;  // extra: an invalid flag value to probe
    pq::GPoly g;
};
static std::string ser(const Case &c) { return fmt("res=%d badflags=%u ", c.res, c.badflags) + pq::ser(c.g); }
static bool deser(const std::string &s, Case &c) {
    if (sscanf(s.c_str(), "res=%d badflags=%u", &c.res, &c.badflags) != 2) return false;
    return pq::deser(s, c.g);
}
static const Q MARGIN = 1e-9Q;

// planar helpers
static Q orient(P2 a, P2 b, P2 c) { return (b.x - a.x) * (c.y - a.y) - (b.y - a.y) * (c.x - a.x); }
static Q len(P2 a, P2 b) { return sqrtq((a.x - b.x) * (a.x - b.x) + (a.y - b.y) * (a.y - b.y)); }
static Q segSegDist(P2 a, P2 b, P2 c, P2 d) {
    // proper intersection -> 0
    Q o1 = orient(a, b, c), o2 = orient(a, b, d), o3 = orient(c, d, a), o4 = orient(c, d, b);
    if (((o1 > 0) != (o2 > 0)) && ((o3 > 0) != (o4 > 0))) return 0;
    Q m = pq::segDist(a, c, d);
    m = fminq(m, pq::segDist(b, c, d));
    m = fminq(m, pq::segDist(c, a, b));
    m = fminq(m, pq::segDist(d, a, b));
    return m;
}
// robust proper crossing: both segments cross each other's supporting line with every endpoint farther than D from that line
static bool crossesRobust(P2 a, P2 b, P2 c, P2 d, Q D) {
    Q lab = len(a, b), lcd = len(c, d);
    if (lab <= 0 || lcd <= 0) return false;
    Q o1 = orient(a, b, c) / lab, o2 = orient(a, b, d) / lab, o3 = orient(c, d, a) / lcd, o4 = orient(c, d, b) / lcd;
    return ((o1 > D && o2 < -D) || (o1 < -D && o2 > D)) && ((o3 > D && o4 < -D) || (o3 < -D && o4 > D));
}

struct CellGeom {
    std::vector<P2> v;  // boundary vertices in the polygon's frame
    P2 c;
    Q bulge = 0;        // max distance between the lat/lng-straight edge and the great-circle edge
    bool usable = true;
};

static CellGeom cellGeom(H3Index h, const pq::Frame &fr) {
    CellGeom g;
    CellBoundary cb;
    LatLng ctr;
    if (cellToBoundary(h, &cb) || cellToLatLng(h, &ctr)) { g.usable = false; return g; }
    g.c = fr.pt(ctr.lat, ctr.lng);
    std::vector<gq::V> V;
    for (int i = 0; i < cb.numVerts; i++) {
        P2 p = fr.pt(cb.verts[i].lat, cb.verts[i].lng);
        // keep the cell in one piece: vertex representative nearest to the centre
        p.x = g.c.x + pq::wrapPi(p.x - g.c.x);
        g.v.push_back(p);
        V.push_back(gq::fromLL(cb.verts[i].lat, cb.verts[i].lng));
    }
    for (int i = 0; i < cb.numVerts; i++) {
        int j = (i + 1) % cb.numVerts;
        for (Q t : {0.25Q, 0.5Q, 0.75Q}) {
            gq::V m = gq::nrm(gq::add(gq::scl(V[i], 1 - t), gq::scl(V[j], t)));
            double la, lo;
            gq::toLL(m, la, lo);
            P2 mp = {g.v[i].x + pq::wrapPi((Q)lo - g.v[i].x), (Q)la};
            Q d = pq::segDist(mp, g.v[i], g.v[j]);
            if (d > g.bulge) g.bulge = d;
        }
    }
    g.bulge *= 1.5Q;
    return g;
}

static void check(const Case &cc) {
    Case c = cc;
    if (c.g.outer.size() < 3) { DISCARD(); return; }
    int res = c.res;
    pq::LibPoly lp(c.g);
    pq::Frame fr(c.g.outer);
    if (fr.maxx - fr.minx > gq::PIq) { DISCARD(); return; }  // wide polygons are C07's known findings; not generated here
    // invalid flags
    {
        int64_t n = -1;
        H3Index dummy[4] = {0};
        uint32_t bf = c.badflags < 4 ? c.badflags + 4 : c.badflags;
        H3Error e1 = maxPolygonToCellsSizeExperimental(&lp.gp, res, bf, &n);
        H3Error e2 = polygonToCellsExperimental(&lp.gp, res, bf, 4, dummy);
        CHECK(e1 == E_OPTION_INVALID, "flags", "maxPolygonToCellsSizeExperimental(flags %u) returned %u, expected E_OPTION_INVALID", bf, e1);
        CHECK(e2 == E_OPTION_INVALID, "flags", "polygonToCellsExperimental(flags %u) returned %u, expected E_OPTION_INVALID", bf, e2);
        // the same for a polygon without vertices (the shortcut for empty polygons must not come before the validation; fixed finding C12)
        GeoPolygon empty;
        empty.geoloop.numVerts = 0; empty.geoloop.verts = nullptr; empty.numHoles = 0; empty.holes = nullptr;
        n = -1;
        e1 = maxPolygonToCellsSizeExperimental(&empty, res, bf, &n);
        e2 = polygonToCellsExperimental(&empty, res, bf, 4, dummy);
        CHECK(e1 == E_OPTION_INVALID && e2 == E_OPTION_INVALID, "flags", "invalid flags %u with an empty polygon: size function returned %u, fill returned %u, expected E_OPTION_INVALID from both", bf, e1, e2);
    }
    std::set<H3Index> S[4];
    for (uint32_t mode = 0; mode < 4; mode++) {
        int64_t n = -1;
        H3Error e = maxPolygonToCellsSizeExperimental(&lp.gp, res, mode, &n);
        CHECK(e == E_SUCCESS && n >= 0, "size-code", "maxPolygonToCellsSizeExperimental(mode %u) failed with %u", mode, e);
        if (n > 2000000) { COUNT("skipped.huge_size_estimate"); DISCARD(); return; }
        Guarded<H3Index> out((size_t)n, 0);
        e = polygonToCellsExperimental(&lp.gp, res, mode, n, out.p());
        CHECK(out.intact(), "guard", "polygonToCellsExperimental(mode %u) wrote outside a buffer of the announced size %lld", mode, (long long)n);
        CHECK(e == E_SUCCESS, "code", "polygonToCellsExperimental(mode %u) failed with %u on a well-formed polygon (size %lld)", mode, e, (long long)n);
        for (int64_t i = 0; i < n; i++) {
            H3Index h = out[(size_t)i];
            if (!h) continue;
            CHECK(ref::valid_cell(h) && ref::res_of(h) == res, "invalid", "mode %u returned %016llx", mode, (unsigned long long)h);
            CHECK(S[mode].insert(h).second, "dup", "mode %u returned %016llx twice", mode, (unsigned long long)h);
        }
        // a smaller capacity yields E_MEMORY_BOUNDS without overrun
        int64_t cnt = (int64_t)S[mode].size();
        if (cnt >= 1) {
            for (int64_t cap : {cnt - 1, (int64_t)0}) {
                Guarded<H3Index> small((size_t)cap, 0);
                H3Error e3 = polygonToCellsExperimental(&lp.gp, res, mode, cap, small.p());
                CHECK(small.intact(), "guard", "polygonToCellsExperimental(mode %u) overran a buffer of capacity %lld", mode, (long long)cap);
                CHECK(e3 == E_MEMORY_BOUNDS, "bounds", "polygonToCellsExperimental(mode %u, capacity %lld < %lld cells) returned %u, expected E_MEMORY_BOUNDS", mode, (long long)cap, (long long)cnt, e3);
                if (cap == 0) break;
            }
        }
    }
    // nesting FULL(1) within CENTER(0) within OVERLAPPING(2) within OVERLAPPING_BBOX(3)
    // root-cause classifier of a known finding: a cell next to a pole whose boundary spans (almost) 180 degrees of longitude
    // or more is not a meaningful lat/lng polygon; the FULL test accepts it on the strength of one vertex
    auto polarWide = [&](H3Index h) {
        CellBoundary cb;
        if (cellToBoundary(h, &cb)) return false;
        double span = 0;
        for (int i = 0; i < cb.numVerts; i++)
            for (int j = 0; j < i; j++) {
                double d = fabs(cb.verts[i].lng - cb.verts[j].lng);
                if (d > gen::PI) d = 2 * gen::PI - d;
                span = std::max(span, d);
            }
        return span > 0.9 * gen::PI;
    };
    for (H3Index h : S[1]) CHECK(S[0].count(h), polarWide(h) ? "full-accepts-polar-cell-spanning-180deg" : "nesting", "%016llx is in FULL but not in CENTER", (unsigned long long)h);
    for (H3Index h : S[0]) CHECK(S[2].count(h), "nesting", "%016llx is in CENTER but not in OVERLAPPING", (unsigned long long)h);
    for (H3Index h : S[2]) CHECK(S[3].count(h), "nesting", "%016llx is in OVERLAPPING but not in OVERLAPPING_BBOX", (unsigned long long)h);

    // the cell that contains the first polygon vertex ON THE SPHERE (what latLngToCell returns; C02) shares a point with the polygon, so
    // OVERLAPPING (and OVERLAPPING_BBOX) must return it — also when the vertex sits in the sliver between a great-circle cell edge and
    // its lat/lng chord, where the planar reading puts it into the neighbour. Claimed only when the vertex is clear of the cell's
    // great-circle boundary by more than the margin.
    {
        LatLng v0 = c.g.outer[0];
        H3Index a0 = 0;
        CellBoundary cb0;
        LatLng np0 = {gen::PI / 2, 0}, sp0 = {-gen::PI / 2, 0};
        if (latLngToCell(&v0, res, &a0) == E_SUCCESS && a0 != gen::cellAt(np0, res) && a0 != gen::cellAt(sp0, res) && cellToBoundary(a0, &cb0) == E_SUCCESS) {
            std::vector<gq::V> poly;
            for (int i = 0; i < cb0.numVerts; i++) poly.push_back(gq::fromLL(cb0.verts[i].lat, cb0.verts[i].lng));
            Q dist = gq::distToBoundary(poly, gq::fromLL(v0.lat, v0.lng));
            Q M0 = fminq(MARGIN, fmaxq((Q)2e-11, (Q)(1e-3 * gen::cellWidth(res))));
            if (dist > M0) {
                COUNT("first_vertex_cell(spherical containment)");
                CHECK(S[2].count(a0), "overlap-first-vertex", "OVERLAPPING omits %016llx, the cell that contains the first polygon vertex (%.3e rad inside its great-circle boundary)", (unsigned long long)a0, (double)dist);
                CHECK(S[3].count(a0), "overlap-first-vertex", "OVERLAPPING_BBOX omits %016llx, the cell that contains the first polygon vertex", (unsigned long long)a0);
            }
        }
    }
    // semantic sandwich per candidate cell
    std::vector<H3Index> cand;
    if (!pq::candidates(c.g, res, cand, 60000)) { COUNT("skipped.too_many_candidates"); DISCARD(); return; }
    std::set<H3Index> all(cand.begin(), cand.end());
    for (int m = 0; m < 4; m++) for (H3Index h : S[m]) all.insert(h);
    pq::QPoly qp = pq::toQ(c.g, fr);
    std::vector<std::vector<P2>> loops;
    loops.push_back(qp.outer);
    for (auto &h : qp.holes) loops.push_back(h);
    LatLng np = {gen::PI / 2, 0}, sp = {-gen::PI / 2, 0};
    H3Index poleN = gen::cellAt(np, res), poleS = gen::cellAt(sp, res);
    Q mid = (fr.minx + fr.maxx) / 2;
    long fullIn = 0, overlapIn = 0, disjoint = 0, undecided = 0, holeInCell = 0, needleCross = 0;
    for (H3Index h : all) {
        if (h == poleN || h == poleS) { COUNT("cell_contains_pole(not judged)"); continue; }
        CellGeom cg = cellGeom(h, fr);
        if (!cg.usable) continue;
        {
            // the planar reading is unambiguous only if the cell cannot meet a 2*pi-translate of the polygon
            Q ext = 0;
            for (auto &p : cg.v) ext = fmaxq(ext, fabsq(p.x - cg.c.x));
            if (fabsq(cg.c.x - mid) + ext + (fr.maxx - fr.minx) / 2 > gq::PIq * 0.95Q) { COUNT("cell_frame_ambiguous(not judged)"); continue; }
        }
        // margin: 1e-9 rad, at the two finest resolutions 1e-3 of a cell width (1e-9 rad is 1 % of a res-15 cell and would leave every
        // polygon of a few 1e-9 rad undecided), never below ten times the point-location tolerance of C02
        const Q M = fminq(MARGIN, fmaxq((Q)2e-11, (Q)(1e-3 * gen::cellWidth(res))));
        Q D = M + cg.bulge;
        int nv = (int)cg.v.size();
        // vertex / centre verdicts
        int cIn = pq::inPoly(qp, cg.c, M);
        int vin = 0, vout = 0;
        for (auto &p : cg.v) { int t = pq::inPoly(qp, p, M); if (t > 0) vin++; else if (t < 0) vout++; }
        // polygon vertices inside the cell; distances between boundaries
        std::vector<P2> cellLoop = cg.v;
        bool polyVertInside = false, polyVertNear = false;
        Q minDist = 100;
        bool robustCross = false;
        for (auto &L : loops) {
            for (size_t i = 0; i < L.size(); i++) {
                P2 a = L[i], b = L[(i + 1) % L.size()];
                Q dv = pq::loopDist(cellLoop, a);
                if (dv <= D) polyVertNear = true;
                else if (pq::loopContains(cellLoop, a)) polyVertInside = true;
                for (int k = 0; k < nv; k++) {
                    P2 p = cg.v[k], q = cg.v[(k + 1) % nv];
                    Q d = segSegDist(p, q, a, b);
                    if (d < minDist) minDist = d;
                    if (crossesRobust(p, q, a, b, D)) robustCross = true;
                }
            }
        }
        bool inF = S[1].count(h), inC = S[0].count(h), inO = S[2].count(h);
        // FULL only if centre and all boundary vertices inside
        if (inF) {
            CHECK(cIn >= 0 && vout == 0, "full-only-if", "FULL returned %016llx although %s lies outside the polygon", (unsigned long long)h, cIn < 0 ? "its centre" : "one of its boundary vertices");
        }
        // FULL if wholly in the interior: all vertices inside, boundaries farther apart than D, no polygon vertex in or near the cell
        bool whollyInside = vin == nv && cIn > 0 && minDist > D && !polyVertInside && !polyVertNear;
        if (whollyInside) {
            fullIn++;
            CHECK(inF, "full-if", "FULL omits %016llx which lies wholly inside the polygon (boundaries %.3e rad apart)", (unsigned long long)h, (double)minDist);
        }
        // OVERLAPPING: must contain the cell if any witness is decided
        const char *witness = nullptr;
        if (cIn > 0) witness = "its centre is inside the polygon";
        else if (vin > 0) witness = "one of its vertices is inside the polygon";
        else if (polyVertInside) witness = "a polygon vertex is inside the cell";
        else if (robustCross) witness = "a cell edge crosses a polygon edge";
        if (witness) {
            overlapIn++;
            if (!inO) {
                // root-cause classifier of the (fixed) defect: hole inside the cell around its centre, only vertex witnesses
                bool holeIn = false;
                for (size_t j = 1; j < loops.size(); j++) {
                    bool allIn = true;
                    for (auto &p : loops[j]) if (!pq::loopContains(cellLoop, p)) allIn = false;
                    if (allIn) holeIn = true;
                }
                const char *sig = (cIn <= 0 && vin == nv && holeIn && !robustCross) ? "overlap-hole-in-cell" : "overlap-if";
                FAIL(sig, "OVERLAPPING omits %016llx although %s", (unsigned long long)h, witness);
                return;
            }
            if (cIn <= 0 && vin == 0 && !polyVertInside && robustCross) needleCross++;
            if (cIn <= 0 && vin == nv && polyVertInside) holeInCell++;
        }
        // OVERLAPPING never if disjoint by more than the margin
        bool separated = cIn < 0 && vout == nv && !polyVertInside && !polyVertNear && minDist > D;
        if (separated) {
            disjoint++;
            CHECK(!inO, "overlap-never", "OVERLAPPING returned %016llx which is disjoint from the polygon (boundaries %.3e rad apart)", (unsigned long long)h, (double)minDist);
            CHECK(!inF && !inC, "overlap-never", "FULL/CENTER returned %016llx which is disjoint from the polygon", (unsigned long long)h);
        }
        if (!whollyInside && !witness && !separated) undecided++;
    }
    if (overlapIn >= 1 && disjoint >= 1) NONTRIVIAL();
    {
        static Counter *sh[pq::NSHAPE] = {nullptr}, *lc[pq::NLOC] = {nullptr};
        static std::string sn[pq::NSHAPE], ln[pq::NLOC];
        int a = c.g.shape % pq::NSHAPE, b = c.g.loc % pq::NLOC;
        if (!sh[a]) { sn[a] = std::string("shape.") + pq::SHAPE_NAME[a]; sh[a] = new Counter(sn[a].c_str()); }
        if (!lc[b]) { ln[b] = std::string("location.") + pq::LOC_NAME[b]; lc[b] = new Counter(ln[b].c_str()); }
        count_hit(*sh[a]);
        count_hit(*lc[b]);
    }
    bool transmeridian = false;
    for (size_t i = 0; i < c.g.outer.size(); i++) if (fabs(c.g.outer[i].lng - c.g.outer[(i + 1) % c.g.outer.size()].lng) > gen::PI) transmeridian = true;
    if (transmeridian) COUNT("crosses_antimeridian");
    if (!c.g.holes.empty()) COUNT("with_holes");
    if (holeInCell) COUNT("has_cell_containing_a_hole_with_centre_not_inside");
    if (needleCross) COUNT("has_cell_cut_only_by_crossing_edges");
    if (fullIn) COUNT("has_cells_wholly_inside");
    if (S[2].size() == 1 && S[0].empty()) COUNT("polygon_smaller_than_a_cell");
    static Counter claims("cells_with_a_decided_claim");
    claims.n += (uint64_t)(fullIn + overlapIn + disjoint);
    static Counter und("cells_undecided");
    und.n += (uint64_t)undecided;
}

static int MAXCELLS = 120;

static Case draw() {
    Case c;
    c.res = ri(0, 15);
    c.g = pq::drawPoly(c.res, MAXCELLS, true, rpick({3, 3, 3, 3, 1, 1, 0, 3}), -1, true);
    int m = rpick({1, 1, 1});
    c.badflags = m == 0 ? (uint32_t)ri(4, 15) : m == 1 ? (uint32_t)(ri(0, 3) | (1u << ri(4, 31))) : (uint32_t)r64();
    if (c.badflags < 4) c.badflags += 4;
    return c;
}

// deterministic stratum: the cells around both poles (k <= 2 disk of the pole cell, every resolution) are the ones whose bounding box is
// clamped at the pole and widened to all longitudes; a diamond of 2 % of an edge length around each of their boundary vertices and a
// triangle of 10 % around each edge midpoint must make OVERLAPPING / OVERLAPPING_BBOX return the cell
static void enumerate(const std::string &, int shard, int nshards, const std::function<void(const Case &)> &emit) {
    long idx = 0;
    for (int res = 0; res <= 15; res++)
        for (int south = 0; south < 2; south++) {
            LatLng pole = {south ? -gen::PI / 2 : gen::PI / 2, 0.0};
            H3Index pc, ring[19] = {0};
            if (latLngToCell(&pole, res, &pc) || gridDisk(pc, 2, ring)) continue;
            for (int k = 0; k < 19; k++) {
                if (!ring[k] || ring[k] == pc) continue;
                CellBoundary b;
                if (cellToBoundary(ring[k], &b)) continue;
                double edge = greatCircleDistanceRads(&b.verts[0], &b.verts[1]);
                for (int j = 0; j < b.numVerts; j++)
                    for (int kind = 0; kind < 2; kind++) {
                        if ((idx++ % nshards) != shard) continue;
                        LatLng v = b.verts[j];
                        if (kind == 1) {
                            const LatLng &w = b.verts[(j + 1) % b.numVerts];
                            v = gen::toLL(gen::lerpN(gen::toV(v.lat, v.lng), gen::toV(w.lat, w.lng), 0.5));
                        }
                        double d = (kind ? 0.1 : 0.02) * edge, dl = d / std::cos(v.lat);
                        if (fabs(v.lat) + d >= gen::PI / 2 - 1e-9 || fabs(v.lng) + dl >= gen::PI - 1e-9) continue;  // the polygon stays in the chart
                        Case c;
                        c.res = res;
                        c.badflags = 4;
                        c.g.clat = v.lat; c.g.clng = v.lng; c.g.shape = kind ? 5 : 3; c.g.loc = 8;
                        c.g.outer.push_back({v.lat + d, v.lng});
                        c.g.outer.push_back({v.lat, v.lng - dl});
                        c.g.outer.push_back({v.lat - d, v.lng});
                        if (!kind) c.g.outer.push_back({v.lat, v.lng + dl});
                        emit(c);
                    }
            }
        }
}

int main(int argc, char **argv) {
    for (int i = 1; i < argc; i++) if (std::string(argv[i]) == "thorough") MAXCELLS = 1500;
    Harness<Case> h;
    h.id = "C15";
    h.draw = draw;
    h.check = check;
    h.enumerate = enumerate;
    h.ser = ser;
    h.deser = deser;
    return harness_main(argc, argv, h);
}
