// C18 — the library is re-entrant: concurrent calls equal sequential calls (DESIGN.md §4 C18)
//
// A case is an API program (engine/apivm.hpp: the same decoder/dispatcher as the C12 fuzz target, ~60 API
// functions with valid, near-valid and out-of-domain arguments) plus a thread count T. Oracles:
//   (1) every one of T threads executing the program concurrently (released together from a barrier, two
//       repetitions each, caller-owned buffers) observes exactly what a sequential execution observes
//       (digest over every return code, scalar output and output buffer);
//   (2) `fast` variant, library linked as a shared object bound with -z now: the bytes of every writable
//       PT_LOAD segment of the library image (.data, .bss, GOT) are identical to what they were before the
//       first API call — deterministic detection of memo tables, static scratch buffers and lazily
//       initialised constants, independent of scheduling;
//   (3) `tsan` variant: ThreadSanitizer reports nothing while the threads run (reports are counted through
//       __tsan_on_report, so a racy case is shrunk and serialised like any other failure). The threads run
//       BEFORE the sequential reference so that first-call initialisation happens concurrently.
#include "harness.hpp"
#include "apivm.hpp"
#include <atomic>
#include <dirent.h>
#include <dlfcn.h>
#include <link.h>
#include <mutex>
#include <pthread.h>
#include <sched.h>
using namespace vh;

#define STR2(x) #x
#define STR(x) STR2(x)
#ifndef VERIF_DIR
#define VERIF_DIR /verif
#endif

#if defined(__SANITIZE_THREAD__)
#define C18_TSAN 1
#elif defined(__has_feature)
#if __has_feature(thread_sanitizer)
#define C18_TSAN 1
#endif
#endif

static std::atomic<long> g_tsan_reports{0};
#ifdef C18_TSAN
extern "C" void __tsan_on_report(void *) { g_tsan_reports++; }
#endif

struct Case {
    int T = 2, order = 0, force = -1, src = 0;
    std::vector<uint8_t> prog;
};
static std::string ser(const Case &c) {
    std::string s = fmt("T=%d order=%d force=%d src=%d prog=", c.T, c.order, c.force, c.src);
    for (uint8_t b : c.prog) s += fmt("%02x", b);
    return s;
}
static bool deser(const std::string &s, Case &c) {
    char buf[8192];
    if (sscanf(s.c_str(), "T=%d order=%d force=%d src=%d prog=%8000s", &c.T, &c.order, &c.force, &c.src, buf) < 4) return false;
    c.prog.clear();
    size_t p = s.find("prog=");
    if (p == std::string::npos) return false;
    for (p += 5; p + 1 < s.size() && isxdigit((unsigned char)s[p]); p += 2) {
        unsigned v;
        sscanf(s.substr(p, 2).c_str(), "%2x", &v);
        c.prog.push_back((uint8_t)v);
    }
    return c.T >= 1 && c.T <= 64;
}

// ---------------------------------------------------------------- writable segments of the library image
struct Seg {
    const unsigned char *p;
    size_t n;
    std::vector<unsigned char> snap;
};
static std::vector<Seg> g_segs;
static std::string g_libname;
static int phdr_cb(struct dl_phdr_info *info, size_t, void *) {
    if (!info->dlpi_name || !strstr(info->dlpi_name, "libh3v")) return 0;
    g_libname = info->dlpi_name;
    for (int i = 0; i < info->dlpi_phnum; i++) {
        const ElfW(Phdr) &ph = info->dlpi_phdr[i];
        if (ph.p_type == PT_LOAD && (ph.p_flags & PF_W)) {
            Seg s;
            s.p = (const unsigned char *)(info->dlpi_addr + ph.p_vaddr);
            s.n = ph.p_memsz;
            s.snap.assign(s.p, s.p + s.n);
            g_segs.push_back(s);
        }
    }
    return 0;
}
static void take_baseline() { dl_iterate_phdr(phdr_cb, nullptr); }
// returns a description of the first differing byte, or "" when the image is unchanged
static std::string image_diff() {
    for (size_t k = 0; k < g_segs.size(); k++) {
        const Seg &s = g_segs[k];
        for (size_t i = 0; i < s.n; i++)
            if (s.p[i] != s.snap[i]) {
                size_t j = i, cnt = 0;
                for (size_t q = i; q < s.n; q++)
                    if (s.p[q] != s.snap[q]) { cnt++; j = q; }
                Dl_info di;
                const char *sym = (dladdr(s.p + i, &di) && di.dli_sname) ? di.dli_sname : "?";
                return fmt("writable segment %zu of %s: %zu byte(s) changed, offsets %zu..%zu of %zu (nearest exported symbol %s)", k, g_libname.c_str(), cnt, i, j, s.n, sym);
            }
    }
    return "";
}
static void restore_image() {  // so that one finding does not fail every later case
    // only bytes that differ are written back: parts of the segment (GOT, .data.rel.ro) are read-only after relocation
    for (Seg &s : g_segs)
        for (size_t i = 0; i < s.n; i++)
            if (s.p[i] != s.snap[i]) ((unsigned char *)s.p)[i] = s.snap[i];
}

// ---------------------------------------------------------------- execution
static std::mutex g_vmu;
static std::vector<std::string> g_viol;  // VM oracle messages (C12's business unless they differ between threads and sequential)
static void on_violation(const std::string &w) {
    std::lock_guard<std::mutex> l(g_vmu);
    if (g_viol.size() < 64) g_viol.push_back(w);
}

struct ThreadArg {
    const Case *c;
    std::atomic<int> *go;
    uint64_t digest[2];
    uint64_t calls;
};
static void *worker(void *a) {
    ThreadArg *t = (ThreadArg *)a;
    apivm::Stats local;  // this thread's own statistics (never shared)
    apivm::t_stats = &local;
    apivm::g_force_op = t->c->force;
    while (!t->go->load(std::memory_order_acquire)) sched_yield();  // released together once every thread exists
    for (int r = 0; r < 2; r++) t->digest[r] = apivm::run_program(t->c->prog.data(), t->c->prog.size());
    t->calls = apivm::stats().calls;
    apivm::t_stats = nullptr;
    return nullptr;
}

static vh::Counter *fnCounter[apivm::NFN];
static uint64_t fnSeen[apivm::NFN][17];

static void check(const Case &c) {
    if (c.prog.empty() || c.T < 1) { DISCARD(); return; }
    apivm::g_violation_handler = on_violation;
    apivm::g_force_op = c.force;
    g_viol.clear();
    long tsan0 = g_tsan_reports.load();
    uint64_t seq = 0;
    std::vector<std::string> violSeq, violThr;
    auto run_seq = [&]() {
        size_t v0 = g_viol.size();
        seq = apivm::run_program(c.prog.data(), c.prog.size());
        violSeq.assign(g_viol.begin() + (long)v0, g_viol.end());
    };
    std::vector<ThreadArg> ta((size_t)c.T);
    int nthreads = 0;
    auto run_thr = [&]() {
        size_t v0 = g_viol.size();
        std::atomic<int> go{0};
        std::vector<pthread_t> th((size_t)c.T);
        int made = 0;
        for (int i = 0; i < c.T; i++) {
            ta[(size_t)i] = ThreadArg{&c, &go, {0, 0}, 0};
            if (pthread_create(&th[(size_t)i], nullptr, worker, &ta[(size_t)i]) != 0) break;  // resource limit: run with fewer threads
            made++;
        }
        go.store(1, std::memory_order_release);
        for (int i = 0; i < made; i++) pthread_join(th[(size_t)i], nullptr);
        nthreads = made;
        violThr.assign(g_viol.begin() + (long)v0, g_viol.end());
    };
#ifdef C18_TSAN
    run_thr();
    run_seq();
#else
    if (c.order == 0) { run_thr(); run_seq(); } else { run_seq(); run_thr(); }
#endif
    // classification from the sequential run (main thread's statistics)
    uint64_t calls = 0;
    for (int f = 0; f < apivm::NFN; f++) {
        if (!apivm::stats().fn_name[f]) continue;
        for (int r = 0; r < 17; r++) {
            uint64_t d = apivm::stats().by_fn_rc[f][r] - fnSeen[f][r];
            if (!d) continue;
            fnSeen[f][r] = apivm::stats().by_fn_rc[f][r];
            calls += d;
            if (!fnCounter[f]) fnCounter[f] = new vh::Counter(strdup((std::string("fn.") + apivm::stats().fn_name[f]).c_str()));
            fnCounter[f]->n += d - 1;
            vh::count_hit(*fnCounter[f]);
        }
    }
    if (nthreads < c.T) COUNT("thread_creation_failed(ran with fewer threads)");
    if (calls > 0 && nthreads >= 2) NONTRIVIAL();
    COUNT(c.src == 0 ? "src.corpus_program" : c.src == 1 ? "src.single_function_template" : "src.random_bytes");
    if (c.T >= 8) COUNT("threads>=8");
    static Counter apicalls("api_calls_sequential");
    apicalls.n += calls;
    static Counter thrcalls("api_calls_in_threads");
    for (auto &t : ta) thrcalls.n += t.calls;

    // (1) concurrent == sequential
    for (int i = 0; i < nthreads; i++)
        for (int r = 0; r < 2; r++)
            if (ta[(size_t)i].digest[r] != seq) {
                FAIL("concurrent-differs", "thread %d of %d (repetition %d) observed digest %016llx, the sequential execution of the same program %016llx: results depend on concurrent calls",
                     i, c.T, r, (unsigned long long)ta[(size_t)i].digest[r], (unsigned long long)seq);
                break;
            }
    // VM oracle messages that only appear under concurrency
    if (!FAILED() && violThr.size() != violSeq.size() * (size_t)nthreads * 2)
        FAIL("concurrent-differs", "the API oracle raised %zu message(s) in %d threads x 2 repetitions but %zu sequentially; first: %s", violThr.size(), c.T, violSeq.size(),
             violThr.empty() ? violSeq[0].c_str() : violThr[0].c_str());
    // (2) library image unchanged
    if (!g_segs.empty()) {
        std::string d = image_diff();
        if (!d.empty()) {
            restore_image();
            if (!FAILED()) FAIL("static-write", "library-owned memory was written by API calls: %s", d.c_str());
        }
    }
    // (3) race detector
    long nrep = g_tsan_reports.load() - tsan0;
    if (nrep > 0 && !FAILED())
        FAIL("tsan-race", "ThreadSanitizer reported %ld data race(s) while %d threads executed the program (report text in the output of --replay)", nrep, c.T);
}

// ---------------------------------------------------------------- generation
static std::vector<std::vector<uint8_t>> g_corpus;
static void load_corpus() {
    std::string dir = std::string(STR(VERIF_DIR)) + "/corpus/C12/seeds";
    DIR *d = opendir(dir.c_str());
    if (!d) return;
    std::vector<std::string> names;
    while (struct dirent *e = readdir(d))
        if (e->d_name[0] != '.') names.push_back(e->d_name);
    closedir(d);
    std::sort(names.begin(), names.end());  // readdir order is not deterministic
    for (auto &n : names) {
        FILE *f = fopen((dir + "/" + n).c_str(), "rb");
        if (!f) continue;
        std::vector<uint8_t> b(4096);
        size_t k = fread(b.data(), 1, b.size(), f);
        fclose(f);
        b.resize(k);
        if (k >= 12) g_corpus.push_back(b);
    }
}

static Case draw() {
    Case c;
    c.T = std::vector<int>{2, 2, 3, 4, 4, 8, 16}[(size_t)ri(0, 6)];
    c.order = ri(0, 1);
    c.src = g_corpus.empty() ? rpick({0, 3, 1}) + 0 : rpick({4, 4, 1});
    if (c.src == 0 && g_corpus.empty()) c.src = 2;
    if (c.src == 0) {
        c.prog = g_corpus[(size_t)ri(0, (int)g_corpus.size() - 1)];
        int nm = ri(0, 3);
        for (int i = 0; i < nm; i++) c.prog[(size_t)ri(0, (int)c.prog.size() - 1)] = (uint8_t)ri(0, 255);
    } else if (c.src == 1) {
        // eight valid registers (kinds: valid / pentagon / pentagon descendant / neighbour of a register), then calls of ONE function
        static const uint8_t kinds[] = {1, 1, 2, 3, 14, 15, 1, 3};
        c.force = ri(0, 60);
        for (int i = 0; i < 8; i++) {
            c.prog.push_back(kinds[ri(0, 7)]);
            uint64_t x = r64();
            if (rbool()) x = (x & ~15ULL) | (uint64_t)ri(0, 6);  // coarse resolutions: disks and paths reach pentagons / seams
            for (int b = 0; b < 8; b++) c.prog.push_back((uint8_t)(x >> (8 * b)));
        }
        int n = ri(20, 160);
        for (int i = 0; i < n; i++) c.prog.push_back((uint8_t)ri(0, 255));
    } else {
        int n = ri(20, 300);
        for (int i = 0; i < n; i++) c.prog.push_back((uint8_t)ri(0, 255));
    }
    return c;
}

// every corpus program once with T=4, every function template once (deterministic stratum)
static void enumerate(const std::string &tier, int shard, int nshards, const std::function<void(const Case &)> &emit) {
    long idx = 0;
    size_t lim = tier == "thorough" ? g_corpus.size() : std::min<size_t>(g_corpus.size(), 1500);
    for (size_t i = 0; i < lim; i++) {
        if ((idx++ % nshards) != shard) continue;
        Case c;
        c.T = 4;
        c.order = (int)(i & 1);
        c.src = 0;
        c.prog = g_corpus[i];
        emit(c);
    }
}

int main(int argc, char **argv) {
    take_baseline();  // before the first API call of the process
    apivm::init_from_env();
    load_corpus();
    Harness<Case> h;
    h.id = "C18";
    h.draw = draw;
    h.check = check;
    h.enumerate = enumerate;
    h.ser = ser;
    h.deser = deser;
    return harness_main(argc, argv, h);
}
