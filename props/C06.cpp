// C06 — compactCells / uncompactCells are lossless, canonical and order-independent
#include "gen.hpp"
#include <set>
using namespace vh;

struct Case {
    int res = 0;
    std::vector<uint64_t> cells;  // distinct valid cells of resolution res, in presentation order
    int flags = 0;                // bit0: sub-tree >=2 levels present, bit1: pentagon family present (classification only)
};
static std::string ser(const Case &c) {
    std::string s = fmt("res=%d flags=%d n=%zu cells=", c.res, c.flags, c.cells.size());
    for (size_t i = 0; i < c.cells.size(); i++) s += fmt(i ? ",%llx" : "%llx", (unsigned long long)c.cells[i]);
    return s;
}
static bool deser(const std::string &s, Case &c) {
    size_t n = 0;
    if (sscanf(s.c_str(), "res=%d flags=%d n=%zu", &c.res, &c.flags, &n) < 3) return false;
    size_t p = s.find("cells=");
    if (p == std::string::npos) return false;
    p += 6;
    c.cells.clear();
    while (p < s.size()) {
        char *end;
        unsigned long long v = strtoull(s.c_str() + p, &end, 16);
        if (end == s.c_str() + p) break;
        c.cells.push_back(v);
        p = (size_t)(end - s.c_str());
        if (p < s.size() && s[p] == ',') p++;
    }
    return c.cells.size() == n;
}

// flags bit 8: the case is a set in COMPACTED form (cells of resolutions <= res, none an ancestor of another) and the implied S is its
// uncompaction at res — |S| can be astronomically large (depth differences up to 15), so only the size function and, when S is small
// enough to materialise, uncompactCells itself are judged
static void checkCompactedForm(const Case &c) {
    const int r = c.res;
    size_t n = c.cells.size();
    if (n == 0) { DISCARD(); return; }
    __int128 total = 0;
    int maxdiff = 0;
    for (size_t i = 0; i < n; i++) {
        uint64_t x = c.cells[i];
        if (!ref::valid_cell(x) || ref::res_of(x) > r) { DISCARD(); return; }
        for (size_t j = 0; j < i; j++) {
            uint64_t y = c.cells[j];
            int m = std::min(ref::res_of(x), ref::res_of(y));
            if (ref::parent(x, m) == ref::parent(y, m)) { DISCARD(); return; }  // ancestor relation or duplicate
        }
        total += ref::children_count(x, r);
        maxdiff = std::max(maxdiff, r - ref::res_of(x));
    }
    if (total > (__int128)4000000000000000000LL) { DISCARD(); return; }
    Guarded<H3Index> in(n);
    memcpy(in.p(), c.cells.data(), n * 8);
    int64_t sz = -1;
    H3Error e = uncompactCellsSize(in.p(), (int64_t)n, r, &sz);
    CHECK(e == E_SUCCESS && sz == (int64_t)total, "uncompact-size", "uncompactCellsSize(%zu cells, up to %d levels coarser, target res %d) = %lld (err %u), the set has %lld cells", n, maxdiff, r, (long long)sz, e, (long long)total);
    COUNT("compacted_form");
    if (maxdiff >= 5) { COUNT("compacted_form.depth>=5"); NONTRIVIAL(); }
    if (maxdiff >= 10) COUNT("compacted_form.depth>=10");
    if (total <= 400000) {
        size_t N = (size_t)total;
        Guarded<H3Index> u(N, 0x5b);
        e = uncompactCells(in.p(), (int64_t)n, u.p(), (int64_t)N, r);
        CHECK(u.intact(), "guard", "uncompactCells wrote outside a buffer of exactly the announced size");
        CHECK(e == E_SUCCESS, "uncompact-code", "uncompactCells failed with %u at the announced size %zu", e, N);
        std::vector<uint64_t> got(u.p(), u.p() + N);
        std::sort(got.begin(), got.end());
        for (size_t i = 0; i < N; i++) {
            CHECK(ref::valid_cell(got[i]) && ref::res_of(got[i]) == r, "uncompact-set", "uncompactCells produced %016llx (not a valid cell of res %d)", (unsigned long long)got[i], r);
            CHECK(i == 0 || got[i] != got[i - 1], "uncompact-set", "uncompactCells produced %016llx twice", (unsigned long long)got[i]);
            bool covered = false;
            for (uint64_t x : c.cells) if (ref::parent(got[i], ref::res_of(x)) == x) covered = true;
            CHECK(covered, "uncompact-set", "uncompactCells produced %016llx, which descends from none of the input cells", (unsigned long long)got[i]);
        }
        if (N >= 1) {
            Guarded<H3Index> sm(N - 1, 0);
            e = uncompactCells(in.p(), (int64_t)n, sm.p(), (int64_t)N - 1, r);
            CHECK(sm.intact(), "guard", "uncompactCells overran a buffer one slot short");
            CHECK(e == E_MEMORY_BOUNDS, "uncompact-bounds", "uncompactCells with capacity %zu of %zu returned %u, expected E_MEMORY_BOUNDS", N - 1, N, e);
        }
    }
}

static void check(const Case &c) {
    if (c.flags & 256) { checkCompactedForm(c); return; }
    const int r = c.res;
    size_t n = c.cells.size();
    if (n == 0) { DISCARD(); return; }
    std::set<uint64_t> S(c.cells.begin(), c.cells.end());
    if (S.size() != n) { DISCARD(); return; }
    for (uint64_t x : c.cells) if (!ref::valid_cell(x) || ref::res_of(x) != r) { DISCARD(); return; }

    Guarded<H3Index> in(n), out(n, 0);
    memcpy(in.p(), c.cells.data(), n * 8);
    H3Error e = compactCells(in.p(), out.p(), (int64_t)n);
    CHECK(in.intact() && out.intact(), "guard", "compactCells wrote outside its buffers");
    CHECK(e == E_SUCCESS, "compact-code", "compactCells failed with %u on %zu distinct valid cells of res %d", e, n, r);
    CHECK(memcmp(in.p(), c.cells.data(), n * 8) == 0, "input-modified", "compactCells modified its input");
    std::vector<uint64_t> comp;
    for (size_t i = 0; i < n; i++) if (out[i]) comp.push_back(out[i]);
    std::set<uint64_t> CS(comp.begin(), comp.end());
    CHECK(CS.size() == comp.size(), "compact-dup", "compacted output has duplicates");
    int maxres = 0, minres = 15;
    for (uint64_t x : comp) {
        CHECK(ref::valid_cell(x), "compact-invalid", "compacted output holds invalid cell %016llx", (unsigned long long)x);
        int xr = ref::res_of(x);
        CHECK(xr <= r, "compact-res", "compacted cell %016llx finer than the input resolution", (unsigned long long)x);
        maxres = std::max(maxres, xr);
        minres = std::min(minres, xr);
        // no ancestor of x is in the output
        for (int p = xr - 1; p >= 0; p--)
            CHECK(!CS.count(ref::parent(x, p)), "compact-ancestor", "output holds %016llx and its ancestor %016llx", (unsigned long long)x, (unsigned long long)ref::parent(x, p));
    }
    // no complete set of siblings
    {
        std::map<uint64_t, int> cnt;
        for (uint64_t x : comp) if (ref::res_of(x) > 0) cnt[ref::parent(x, ref::res_of(x) - 1)]++;
        for (auto &kv : cnt) {
            int need = ref::is_pentagon(kv.first) ? 6 : 7;
            CHECK(kv.second < need, "compact-siblings", "output holds all %d children of %016llx (not canonical)", need, (unsigned long long)kv.first);
        }
    }
    std::vector<uint64_t> want = ref::compact(c.cells);
    std::vector<uint64_t> got = comp;
    std::sort(got.begin(), got.end());
    if (got != want) {
        // lossless? find a witness
        std::set<uint64_t> W(want.begin(), want.end());
        for (uint64_t x : got) CHECK(W.count(x), "compact-set", "compacted output holds %016llx which the canonical compaction does not (|got|=%zu |want|=%zu)", (unsigned long long)x, got.size(), want.size());
        for (uint64_t x : want) CHECK(CS.count(x), "compact-set", "compacted output lacks %016llx (|got|=%zu |want|=%zu)", (unsigned long long)x, got.size(), want.size());
    }
    // uncompact round trip
    int64_t usz = -1;
    e = uncompactCellsSize(comp.data(), (int64_t)comp.size(), r, &usz);
    CHECK(e == E_SUCCESS && usz == (int64_t)n, "uncompact-size", "uncompactCellsSize -> err %u size %lld, expected %zu", e, (long long)usz, n);
    {
        Guarded<H3Index> u(n, 0);
        e = uncompactCells(comp.data(), (int64_t)comp.size(), u.p(), (int64_t)n, r);
        CHECK(u.intact(), "guard", "uncompactCells wrote outside an exactly sized buffer");
        CHECK(e == E_SUCCESS, "uncompact-code", "uncompactCells failed with %u", e);
        std::set<uint64_t> U;
        for (size_t i = 0; i < n; i++) U.insert(u[i]);
        CHECK(U == S, "uncompact-set", "uncompactCells(compactCells(S)) != S (|U|=%zu |S|=%zu)", U.size(), S.size());
    }
    {
        // also through the zero-padded array exactly as compactCells left it
        Guarded<H3Index> u(n, 0);
        e = uncompactCells(out.p(), (int64_t)n, u.p(), (int64_t)n, r);
        CHECK(u.intact() && e == E_SUCCESS, "uncompact-code", "uncompactCells on the zero-padded compacted array failed with %u", e);
        std::set<uint64_t> U;
        for (size_t i = 0; i < n; i++) U.insert(u[i]);
        CHECK(U == S, "uncompact-set", "uncompactCells(zero-padded compacted array) != S");
    }
    {
        Guarded<H3Index> u(n - 1 ? n - 1 : 0, 0);
        e = uncompactCells(comp.data(), (int64_t)comp.size(), u.p(), (int64_t)n - 1, r);
        CHECK(u.intact(), "guard", "uncompactCells overran a buffer of capacity |S|-1");
        CHECK(e == E_MEMORY_BOUNDS, "uncompact-bounds", "uncompactCells with capacity |S|-1 returned %u, expected E_MEMORY_BOUNDS", e);
    }
    if (maxres > 0) {
        int64_t dummy = 0;
        e = uncompactCellsSize(comp.data(), (int64_t)comp.size(), maxres - 1, &dummy);
        CHECK(e == E_RES_MISMATCH, "uncompact-mismatch", "uncompactCellsSize(target res %d coarser than a cell of res %d) returned %u, expected E_RES_MISMATCH", maxres - 1, maxres, e);
        Guarded<H3Index> u(n, 0);
        e = uncompactCells(comp.data(), (int64_t)comp.size(), u.p(), (int64_t)n, maxres - 1);
        CHECK(u.intact(), "guard", "overrun");
        CHECK(e == E_RES_MISMATCH, "uncompact-mismatch", "uncompactCells(target res %d coarser than a cell of res %d) returned %u, expected E_RES_MISMATCH", maxres - 1, maxres, e);
    }
    // classification
    bool pentFamily = false;
    for (uint64_t x : comp) if (ref::is_pentagon(x) && ref::res_of(x) < r) pentFamily = true;
    if (pentFamily) COUNT("pentagon_family_compacted");
    if (r - minres >= 2) COUNT("compacts_by>=2_levels");
    if (r - minres >= 2 || pentFamily) NONTRIVIAL();
    if (comp.size() == n) COUNT("nothing_compacts");
    if (n >= 1000) COUNT("size>=1000");
    if (n >= 20000) COUNT("size>=20000");
    bool sorted = std::is_sorted(c.cells.begin(), c.cells.end());
    COUNT(sorted ? "order.sorted" : "order.permuted");
}

static int MAXCELLS = 2500;

static void addSubtree(std::vector<uint64_t> &v, uint64_t anc, int r) {
    int64_t n = ref::children_count(anc, r);
    for (int64_t i = 0; i < n; i++) v.push_back(ref::child_at(anc, r, i));
}

static Case draw() {
    Case c;
    if (rpick({7, 1}) == 1) {  // compacted-form input: a few cells up to 15 levels coarser than the target
        c.flags = 256;
        c.res = rpick({1, 2}) == 0 ? ri(0, 15) : ri(8, 15);
        int k = ri(1, 6);
        for (int i = 0; i < k; i++) {
            int rx = rpick({1, 1}) == 0 ? ri(0, c.res) : std::max(0, c.res - ri(3, 15));
            uint64_t x = gen::cellRes(rx, {3, 3, 2, 1, 0, 0, 1, 0, 2}).h;
            bool clash = false;
            for (uint64_t y : c.cells) { int m = std::min(ref::res_of(x), ref::res_of(y)); if (ref::parent(x, m) == ref::parent(y, m)) clash = true; }
            if (!clash) c.cells.push_back(x);
        }
        return c;
    }
    c.res = rpick({1, 12}) == 0 ? 0 : ri(1, 15);
    int r = c.res;
    int nblocks = ri(1, 8);
    std::vector<uint64_t> v;
    for (int b = 0; b < nblocks && (int)v.size() < MAXCELLS; b++) {
        int kind = rpick({3, 3, 2, 2, 2, 1});
        if (r == 0) kind = 3;
        if (r >= 1 && r <= (MAXCELLS > 5000 ? 3 : 2) && b == 0 && rpick({2, 1}) == 1) kind = 6;
        switch (kind) {
            case 6: {  // complete descendants of several whole base cells: compaction runs all the way down to resolution 0
                int k = rpick({3, 1}) == 0 ? ri(1, 12) : (rpick({2, 1}) == 0 ? ri(6, 40) : 122);
                if (r == 3 && k > 30) k = 30;
                uint64_t s0 = r64();
                std::vector<int> bcs(122);
                for (int i = 0; i < 122; i++) bcs[(size_t)i] = i;
                for (size_t i = 122; i > 1; i--) std::swap(bcs[i - 1], bcs[(size_t)(splitmix(s0) % i)]);
                int zero[16] = {0};
                for (int i = 0; i < k; i++) addSubtree(v, ref::make_cell(0, bcs[(size_t)i], zero), r);
                if (rpick({2, 1}) == 1 && !v.empty()) v.erase(v.begin() + (long)(r64() % v.size()));
                c.flags |= 1;
                break;
            }
            case 0: {  // whole sub-tree of an ancestor d levels up
                int d = ri(1, std::min(r, MAXCELLS > 5000 ? 6 : 4));
                gen::GCell g = gen::cellRes(r - d, {3, 3, 1, 1, 0, 0, 1});
                addSubtree(v, g.h, r);
                if (d >= 2) c.flags |= 1;
                break;
            }
            case 1: {  // sibling group with 1..6 members missing
                gen::GCell g = gen::cellRes(r - 1, {3, 3, 1, 1, 0, 0, 1});
                int64_t n = ref::children_count(g.h, r);
                int miss = ri(1, (int)n - 1);
                uint64_t mask = r64();
                std::vector<uint64_t> ch;
                for (int64_t i = 0; i < n; i++) ch.push_back(ref::child_at(g.h, r, i));
                for (int i = 0; i < miss; i++) ch.erase(ch.begin() + (long)((mask >> (4 * i)) % ch.size()));
                v.insert(v.end(), ch.begin(), ch.end());
                break;
            }
            case 2: {  // pentagon family: complete sub-tree below a pentagon at depth d, or incomplete
                int d = ri(1, std::min(r, 4));
                uint64_t p = gen::pentagonAt(r - d, ri(0, 11));
                std::vector<uint64_t> ch;
                addSubtree(ch, p, r);
                if (rpick({2, 1}) == 1) ch.erase(ch.begin() + (long)(r64() % ch.size()));
                v.insert(v.end(), ch.begin(), ch.end());
                c.flags |= 2;
                break;
            }
            case 3: {  // isolated cells
                int k = ri(1, 6);
                for (int i = 0; i < k; i++) v.push_back(gen::cellRes(r).h);
                break;
            }
            case 4: {  // sub-tree with one deep cell missing: compacts partially on several levels
                int d = ri(2, std::min(std::max(r, 2), 4));
                if (d > r) { v.push_back(gen::cellRes(r).h); break; }
                gen::GCell g = gen::cellRes(r - d, {3, 3, 1, 1, 0, 0, 1});
                std::vector<uint64_t> ch;
                addSubtree(ch, g.h, r);
                ch.erase(ch.begin() + (long)(r64() % ch.size()));
                v.insert(v.end(), ch.begin(), ch.end());
                break;
            }
            default: {  // all children of several hexagon siblings inside a pentagon base cell
                int d = ri(1, std::min(r, 3));
                uint64_t h = gen::cellPentChain(r - d);
                addSubtree(v, h, r);
                break;
            }
        }
    }
    std::sort(v.begin(), v.end());
    v.erase(std::unique(v.begin(), v.end()), v.end());
    int order = rpick({3, 1, 1});
    if (order == 0) {  // generated permutation (Fisher-Yates driven by one drawn seed)
        uint64_t s = r64();
        for (size_t i = v.size(); i > 1; i--) std::swap(v[i - 1], v[(size_t)(splitmix(s) % i)]);
    } else if (order == 2)
        std::reverse(v.begin(), v.end());
    c.cells = v;
    return c;
}

static void enumerate(const std::string &tier, int shard, int nshards, const std::function<void(const Case &)> &emit) {
    {   // the size function at every (coarse resolution, depth difference) for a hexagon, a pentagon and both together
        long k = 0;
        int zero[16] = {0};
        for (int rx = 0; rx <= 15; rx++)
            for (int r = rx; r <= 15; r++) {
                if ((k++ % nshards) != shard) continue;
                uint64_t hex = ref::center_child(ref::make_cell(0, 20, zero), rx), pen = ref::center_child(ref::make_cell(0, 4, zero), rx);
                Case c;
                c.flags = 256; c.res = r;
                c.cells = {hex}; emit(c);
                c.cells = {pen}; emit(c);
                c.cells = {pen, hex}; emit(c);
            }
    }
    // every pentagon at every res x complete families at depth 1..3 (4 thorough); every res-0 cell's full sub-tree at res 1..3
    int D = tier == "thorough" ? 4 : 3;
    long idx = 0;
    for (int pr = 0; pr <= 14; pr++) {
        H3Index p[12];
        getPentagons(pr, p);
        for (int i = 0; i < 12; i++)
            for (int d = 1; d <= D && pr + d <= 15; d++) {
                if ((idx++ % nshards) != shard) continue;
                Case c;
                c.res = pr + d;
                c.flags = 2;
                addSubtree(c.cells, p[i], pr + d);
                emit(c);
                std::reverse(c.cells.begin(), c.cells.end());
                emit(c);
                // one missing
                c.cells.erase(c.cells.begin() + (long)(c.cells.size() / 2));
                emit(c);
            }
    }
    H3Index r0[122];
    getRes0Cells(r0);
    for (int i = 0; i < 122; i++)
        for (int d = 1; d <= D; d++) {
            if ((idx++ % nshards) != shard) continue;
            Case c;
            c.res = d;
            addSubtree(c.cells, r0[i], d);
            emit(c);
        }
    if (tier == "thorough" && shard == 0) {
        // whole resolutions 1..4 as one set: compacts to the 122 base cells
        for (int r = 1; r <= 4; r++) {
            Case c;
            c.res = r;
            for (int i = 0; i < 122; i++) addSubtree(c.cells, r0[i], r);
            uint64_t s = 12345 + (uint64_t)r;
            for (size_t k = c.cells.size(); k > 1; k--) std::swap(c.cells[k - 1], c.cells[(size_t)(splitmix(s) % k)]);
            emit(c);
        }
    }
}

int main(int argc, char **argv) {
    for (int i = 1; i < argc; i++) if (std::string(argv[i]) == "thorough") MAXCELLS = 100000;
    Harness<Case> h;
    h.id = "C06";
    h.draw = draw;
    h.check = check;
    h.enumerate = enumerate;
    h.ser = ser;
    h.deser = deser;
    h.fp = [](const Case &c) { uint64_t x = (uint64_t)c.res; for (uint64_t v : c.cells) x = mix64(x, v); return x; };
    h.selftest = []() { const char *e = ref::selftest(); if (e) { fprintf(stderr, "reference model self-test failed: %s\n", e); exit(2); } };
    return harness_main(argc, argv, h);
}
