// C03 — cell <-> centre bijection and complete enumeration per resolution
#include "gen.hpp"
#include <cfenv>
using namespace vh;

struct Case {
    int kind = 0;  // 0 round trip of cell h; 1 per-base-cell enumeration identity (res=p, base cell=q); 2 global count identities for res p
    uint64_t h = 0;
    int p = 0, q = 0;
    int arm = -1;
};
static std::string ser(const Case &c) { return fmt("kind=%d h=%016llx p=%d q=%d arm=%d", c.kind, (unsigned long long)c.h, c.p, c.q, c.arm); }
static bool deser(const std::string &s, Case &c) {
    unsigned long long h;
    int n = sscanf(s.c_str(), "kind=%d h=%llx p=%d q=%d arm=%d", &c.kind, &h, &c.p, &c.q, &c.arm);
    c.h = h;
    return n >= 2;
}

static void roundtrip(const Case &c) {
    uint64_t h = c.h;
    if (!ref::valid_cell(h)) { DISCARD(); return; }
    int res = ref::res_of(h);
    LatLng g = {1e9, 1e9};
    H3Error e = cellToLatLng(h, &g);
    CHECK(e == E_SUCCESS, "c2ll", "cellToLatLng(%016llx) failed with %u", (unsigned long long)h, e);
    CHECK(std::isfinite(g.lat) && std::isfinite(g.lng) && fabs(g.lat) <= gen::PI / 2 + 1e-12 && fabs(g.lng) <= gen::PI + 1e-12, "c2ll-range", "cellToLatLng(%016llx) = (%.17g, %.17g) out of range", (unsigned long long)h, g.lat, g.lng);
    H3Index back = 0;
    e = latLngToCell(&g, res, &back);
    CHECK(e == E_SUCCESS && back == h, "roundtrip", "latLngToCell(cellToLatLng(%016llx)) = %016llx (err %u), centre (%.17g, %.17g)", (unsigned long long)h, (unsigned long long)back, e, g.lat, g.lng);
    {   // the bijection does not depend on the caller's floating-point rounding direction: a centre is far from every edge, so ulp-level
        // differences cannot move it to another cell (one case in four, mode chosen by the cell so that replay is exact)
        static const int RM[3] = {FE_UPWARD, FE_DOWNWARD, FE_TOWARDZERO};
        uint64_t pick = mix64(h, 0x51ed) & 15;
        if (pick < 3) {
            fesetround(RM[pick]);
            LatLng g2 = {1e9, 1e9};
            H3Index back2 = 0;
            H3Error e1 = cellToLatLng(h, &g2), e2 = e1 ? e1 : latLngToCell(&g2, res, &back2);
            fesetround(FE_TONEAREST);
            COUNT("roundtrip.under_directed_rounding_mode");
            CHECK(e2 == E_SUCCESS && back2 == h, "roundtrip-rounding-mode", "under rounding mode %s latLngToCell(cellToLatLng(%016llx)) = %016llx (err %u)", pick == 0 ? "FE_UPWARD" : pick == 1 ? "FE_DOWNWARD" : "FE_TOWARDZERO", (unsigned long long)h, (unsigned long long)back2, e2);
        }
    }
    CHECK((isPentagon(h) != 0) == ref::is_pentagon(h), "ispentagon", "isPentagon(%016llx) disagrees with the documented definition", (unsigned long long)h);
    bool pbc = ref::is_pent_bc(ref::unpack(h).bc);
    if (res >= 3 || pbc) NONTRIVIAL();
    if (ref::is_pentagon(h)) COUNT("roundtrip.pentagon");
    else if (pbc) COUNT("roundtrip.pentagon_base_cell");
    if (c.arm >= 0 && c.arm < gen::NARMS) {
        static Counter *arms[gen::NARMS] = {nullptr};
        static std::string names[gen::NARMS];
        if (!arms[c.arm]) { names[c.arm] = std::string("roundtrip.arm.") + gen::ARM_NAME[c.arm]; arms[c.arm] = new Counter(names[c.arm].c_str()); }
        count_hit(*arms[c.arm]);
    } else COUNT("roundtrip.enumerated");
    if (res >= 12) COUNT("roundtrip.res>=12");
}

struct Triple { uint64_t n = 0, x = 0, s = 0; int pent = 0; };

static void perBaseCell(const Case &c) {
    int r = c.p, bc = c.q;
    // reference side: all digit strings over 8 symbols of length r under base cell bc, kept if the documented predicate accepts
    Triple R, L;
    long nstr = 1;
    for (int i = 0; i < r; i++) nstr *= 8;
    ref::Idx x;
    x.res = r;
    x.bc = bc;
    for (int i = r + 1; i <= 15; i++) x.d[i] = 7;
    for (long sidx = 0; sidx < nstr; sidx++) {
        long t = sidx;
        for (int i = r; i >= 1; i--) { x.d[i] = (int)(t % 8); t /= 8; }
        if (!ref::valid_cell_x(x)) continue;
        uint64_t h = ref::pack(x);
        R.n++; R.x ^= h; R.s += h;
        if (ref::is_pentagon(h)) R.pent++;
    }
    // library side: children of the res-0 cell
    H3Index r0[122];
    CHECK(getRes0Cells(r0) == E_SUCCESS, "res0", "getRes0Cells failed");
    H3Index base = 0;
    for (int i = 0; i < 122; i++) if (ref::unpack(r0[i]).bc == bc) base = r0[i];
    CHECK(base != 0 && ref::valid_cell(base) && ref::res_of(base) == 0, "res0", "getRes0Cells lacks base cell %d", bc);
    int64_t n = 0;
    CHECK(cellToChildrenSize(base, r, &n) == E_SUCCESS, "enum", "cellToChildrenSize failed");
    Guarded<H3Index> out((size_t)n);
    CHECK(cellToChildren(base, r, out.p()) == E_SUCCESS && out.intact(), "enum", "cellToChildren failed");
    for (int64_t i = 0; i < n; i++) {
        uint64_t h = out[(size_t)i];
        L.n++; L.x ^= h; L.s += h;
        if (isPentagon(h)) L.pent++;
    }
    CHECK(R.n == L.n && R.x == L.x && R.s == L.s, "enum-mismatch", "res %d base cell %d: library enumerates %llu cells, the documented layout admits %llu (xor/sum %s)", r, bc, (unsigned long long)L.n, (unsigned long long)R.n, (R.x == L.x && R.s == L.s) ? "equal" : "differ");
    CHECK(R.pent == L.pent && R.pent == (ref::is_pent_bc(bc) ? 1 : 0), "enum-pentagons", "res %d base cell %d: %d pentagons by isPentagon, %d by definition", r, bc, L.pent, R.pent);
    int64_t closed = ref::is_pent_bc(bc) ? ref::pent_children(r) : ref::hex_children(r);
    CHECK((int64_t)R.n == closed, "enum-closed-form", "reference count %llu != closed form %lld", (unsigned long long)R.n, (long long)closed);
    NONTRIVIAL();
    COUNT("enumeration.per_base_cell");
}

static void globalCounts(const Case &c) {
    int r = c.p;
    int64_t n = -1;
    CHECK(getNumCells(r, &n) == E_SUCCESS && n == ref::num_cells(r), "numcells", "getNumCells(%d) = %lld, expected 2+120*7^r = %lld", r, (long long)n, (long long)ref::num_cells(r));
    CHECK(res0CellCount() == 122 && pentagonCount() == 12, "counts", "res0CellCount/pentagonCount wrong");
    H3Index p[12];
    CHECK(getPentagons(r, p) == E_SUCCESS, "pentagons", "getPentagons(%d) failed", r);
    std::set<uint64_t> P(p, p + 12), W;
    int zero[16] = {0};
    for (int bc : ref::PENT_BC) W.insert(ref::make_cell(r, bc, zero));
    CHECK(P == W, "pentagons", "getPentagons(%d) is not the set of the twelve documented pentagons", r);
    for (uint64_t h : P) CHECK(isPentagon(h) && isValidCell(h), "pentagons", "getPentagons returned a non-pentagon");
    H3Index r0[122];
    CHECK(getRes0Cells(r0) == E_SUCCESS, "res0", "getRes0Cells failed");
    std::set<uint64_t> A(r0, r0 + 122), B;
    for (int bc = 0; bc < 122; bc++) B.insert(ref::make_cell(0, bc, zero));
    CHECK(A == B, "res0", "getRes0Cells is not the set of the 122 resolution-0 indexes");
    // sum of the per-base-cell closed forms is the global formula
    int64_t sum = 110 * ref::hex_children(r) + 12 * ref::pent_children(r);
    CHECK(sum == ref::num_cells(r), "numcells", "closed forms inconsistent");
    int64_t bad = 5;
    CHECK(getNumCells(-1, &bad) == E_RES_DOMAIN && getNumCells(16, &bad) == E_RES_DOMAIN, "numcells-domain", "getNumCells accepts an out-of-range resolution");
    NONTRIVIAL();
    COUNT("global_counts");
}

// every index isValidCell accepts must round trip too (the statement quantifies over valid cells, and their number is fixed):
// near-valid perturbations of a generated cell are either rejected or behave as cells
static void perturbed(const Case &c) {
    uint64_t v = c.h;
    if (!isValidCell(v)) { COUNT("perturbed.rejected"); if (!ref::valid_cell(v)) NONTRIVIAL(); return; }
    COUNT("perturbed.accepted");
    int res = ref::res_of(v);
    LatLng g;
    H3Error e = cellToLatLng(v, &g);
    CHECK(e == E_SUCCESS, "c2ll", "isValidCell accepts %016llx but cellToLatLng fails with %u", (unsigned long long)v, e);
    H3Index back = 0;
    e = latLngToCell(&g, res, &back);
    CHECK(e == E_SUCCESS && back == v, "roundtrip-accepted", "isValidCell accepts %016llx but latLngToCell of its centre gives %016llx: more valid indexes than cells", (unsigned long long)v, (unsigned long long)back);
}

static void check(const Case &c) {
    if (c.kind == 3) perturbed(c);
    else if (c.kind == 0) roundtrip(c);
    else if (c.kind == 1) perBaseCell(c);
    else globalCounts(c);
}

static Case draw() {
    Case c;
    c.kind = rpick({5, 0, 0, 1}) == 0 ? 0 : 3;
    int res = ri(0, 15);
    gen::GCell g = gen::cellRes(res, {3, 2, 4, 5, 1, 1, 1, 3, 1});
    c.h = g.h;
    c.arm = g.arm;
    if (c.kind == 3) {  // one digit (inside or beyond the resolution) replaced, or one bit flipped
        ref::Idx x = ref::unpack(c.h);
        int m = rpick({3, 2, 1});
        if (m == 0) x.d[ri(1, 15)] = ri(0, 7);
        else if (m == 1 && res < 15) x.d[ri(res + 1, 15)] = ri(0, 6);
        c.h = ref::pack(x);
        if (m == 2) c.h ^= 1ULL << ri(0, 63);
    }
    return c;
}

static void enumerate(const std::string &tier, int shard, int nshards, const std::function<void(const Case &)> &emit) {
    bool th = tier == "thorough";
    long idx = 0;
    Case c;
    // (a) global identities for all 16 resolutions
    for (int r = 0; r <= 15; r++) { if ((idx++ % nshards) != shard) continue; c.kind = 2; c.p = r; emit(c); }
    // (b) per-base-cell enumeration identity, res <= 5 (7 thorough)
    int RE = th ? 7 : 5;
    for (int r = RE; r >= 0; r--)
        for (int bc = 0; bc < 122; bc++) { if ((idx++ % nshards) != shard) continue; c.kind = 1; c.p = r; c.q = bc; emit(c); }
    // (c) complete round trip of every cell of res 0..4 (0..6 thorough), enumerated by the reference model
    int RR = th ? 6 : 4;
    c.kind = 0;
    c.arm = -1;
    int zero[16] = {0};
    for (int r = 0; r <= RR; r++)
        for (int bc = 0; bc < 122; bc++) {
            if ((idx++ % nshards) != shard) continue;
            uint64_t base = ref::make_cell(0, bc, zero);
            int64_t n = ref::children_count(base, r);
            for (int64_t i = 0; i < n; i++) { c.h = ref::child_at(base, r, i); emit(c); }
        }
    // (d) complete k-disks around all 12 pentagons at all 16 resolutions
    int K = th ? 30 : 6;
    int64_t dn;
    maxGridDiskSize(K, &dn);
    std::vector<H3Index> disk((size_t)dn);
    for (int r = 0; r <= 15; r++) {
        H3Index p[12];
        getPentagons(r, p);
        for (int i = 0; i < 12; i++) {
            if ((idx++ % nshards) != shard) continue;
            std::fill(disk.begin(), disk.end(), 0);
            if (gridDisk(p[i], K, disk.data())) continue;
            for (H3Index h : disk) if (h) { c.h = h; emit(c); }
        }
    }
    // (e) bands along all 30 icosahedron edges and around the 20 face centres: points stepped at half a cell width, res <= RB
    int RB = th ? 8 : 5;
    const gen::Ico &I = gen::ico();
    for (int r = 0; r <= RB; r++) {
        double w = gen::cellWidth(r);
        for (int e = 0; e < 30; e++) {
            if ((idx++ % nshards) != shard) continue;
            gen::V3 a = gen::toV(I.vert[I.edges[e][0]].lat, I.vert[I.edges[e][0]].lng), b = gen::toV(I.vert[I.edges[e][1]].lat, I.vert[I.edges[e][1]].lng);
            int steps = (int)(1.2 / (w * 0.5)) + 1;
            H3Index prev = 0;
            for (int s = 0; s <= steps; s++) {
                LatLng p = gen::toLL(gen::lerpN(a, b, (double)s / steps));
                H3Index h = gen::cellAt(p, r);
                if (h == prev || !h) continue;
                prev = h;
                H3Index nb[7] = {0};
                gridDisk(h, 1, nb);
                for (H3Index x : nb) if (x) { c.h = x; emit(c); }
            }
        }
    }
    for (int r = 0; r <= 15; r++)
        for (int f = 0; f < I.nfaces; f++) {
            if ((idx++ % nshards) != shard) continue;
            H3Index h = gen::cellAt(I.faceCentre[f], r);
            int64_t n;
            int k = th ? 8 : 3;
            maxGridDiskSize(k, &n);
            std::vector<H3Index> d((size_t)n, 0);
            if (gridDisk(h, k, d.data())) continue;
            for (H3Index x : d) if (x) { c.h = x; emit(c); }
        }
}

int main(int argc, char **argv) {
    Harness<Case> h;
    h.id = "C03";
    h.draw = draw;
    h.check = check;
    h.enumerate = enumerate;
    h.ser = ser;
    h.deser = deser;
    h.fp = [](const Case &c) { return mix64(c.h, (uint64_t)c.kind * 1000003ULL + (uint64_t)c.p * 131 + (uint64_t)c.q); };
    h.selftest = []() { const char *e = ref::selftest(); if (e) { fprintf(stderr, "reference model self-test failed: %s\n", e); exit(2); } };
    return harness_main(argc, argv, h);
}
