// C01 — cell validity is exactly the documented 64-bit layout; closure: every produced cell is valid
#include "gen.hpp"
using namespace vh;

struct Case {
    int kind = 0;        // 0 predicate on v; 1 closure call `api` on (h, p, q, lat, lng)
    uint64_t v = 0;      // kind 0 value / kind 1 cell
    int api = 0, p = 0, q = 0;
    double lat = 0, lng = 0;
};
static std::string ser(const Case &c) {
    return fmt("kind=%d v=%016llx api=%d p=%d q=%d lat=%.17g lng=%.17g", c.kind, (unsigned long long)c.v, c.api, c.p, c.q, c.lat, c.lng);
}
static bool deser(const std::string &s, Case &c) {
    unsigned long long v;
    int n = sscanf(s.c_str(), "kind=%d v=%llx api=%d p=%d q=%d lat=%lg lng=%lg", &c.kind, &v, &c.api, &c.p, &c.q, &c.lat, &c.lng);
    c.v = v;
    return n >= 2;
}

static const char *API_NAME[] = {"latLngToCell", "cellToParent", "cellToChildren", "cellToCenterChild", "childPosToCell", "gridDisk",
                                 "gridDiskDistances", "gridDiskUnsafe", "gridRingUnsafe", "gridDiskDistancesSafe", "gridDisksUnsafe",
                                 "gridPathCells", "localIjToCell", "polygonToCells", "polygonToCellsExperimental", "compact/uncompact",
                                 "getRes0Cells/getPentagons", "edges", "vertex owner"};
enum { NAPI = 19 };

static bool outValid(H3Index x, const char *api) {
    if (x == 0) return true;
    if (!ref::valid_cell(x)) {
        FAIL("closure", "%s returned %016llx which violates the documented cell layout", api, (unsigned long long)x);
        return false;
    }
    if (!isValidCell(x)) {
        FAIL("closure-lib", "%s returned %016llx which isValidCell rejects", api, (unsigned long long)x);
        return false;
    }
    return true;
}

static void closure(const Case &c) {
    H3Index h = c.v;
    const char *nm = API_NAME[c.api % NAPI];
    int res = ref::res_of(h);
    size_t produced = 0;
    auto all = [&](const H3Index *a, size_t n) {
        for (size_t i = 0; i < n; i++) {
            if (a[i]) produced++;
            if (!outValid(a[i], nm)) return false;
        }
        return true;
    };
    switch (c.api % NAPI) {
        case 0: {
            LatLng g = {c.lat, c.lng};
            H3Index o = 0;
            if (latLngToCell(&g, c.p, &o) == E_SUCCESS) { all(&o, 1); CHECK(ref::res_of(o) == c.p, "closure", "latLngToCell res"); }
            break;
        }
        case 1: { H3Index o = 0; if (cellToParent(h, c.p, &o) == E_SUCCESS) all(&o, 1); break; }
        case 2: {
            int64_t n = 0;
            if (cellToChildrenSize(h, c.p, &n) || n > 200000) break;
            Guarded<H3Index> out((size_t)n);
            if (cellToChildren(h, c.p, out.p()) == E_SUCCESS) all(out.p(), (size_t)n);
            CHECK(out.intact(), "guard", "cellToChildren overran its buffer");
            break;
        }
        case 3: { H3Index o = 0; if (cellToCenterChild(h, c.p, &o) == E_SUCCESS) all(&o, 1); break; }
        case 4: {
            int64_t n = 0;
            if (cellToChildrenSize(h, c.p, &n) || n <= 0) break;
            H3Index o = 0;
            int64_t pos = (int64_t)((uint64_t)(unsigned)c.q * 2654435761ULL % (uint64_t)n);
            if (childPosToCell(pos, h, c.p, &o) == E_SUCCESS) all(&o, 1);
            break;
        }
        case 5: case 6: case 7: case 8: case 9: {
            int k = c.p;
            int64_t n = 0;
            if (maxGridDiskSize(k, &n) || n > 200000) break;
            Guarded<H3Index> out((size_t)n);
            Guarded<int> dist((size_t)n);
            H3Error e;
            int a = c.api % NAPI;
            if (a == 5) e = gridDisk(h, k, out.p());
            else if (a == 6) e = gridDiskDistances(h, k, out.p(), dist.p());
            else if (a == 7) e = gridDiskUnsafe(h, k, out.p());
            else if (a == 9) e = gridDiskDistancesSafe(h, k, out.p(), dist.p());
            else {
                size_t rn = k == 0 ? 1 : 6 * (size_t)k;
                Guarded<H3Index> ring(rn);
                e = gridRingUnsafe(h, k, ring.p());
                if (e == E_SUCCESS) all(ring.p(), rn);
                CHECK(ring.intact(), "guard", "gridRingUnsafe overran");
                break;
            }
            if (e == E_SUCCESS) all(out.p(), (size_t)n);
            CHECK(out.intact() && dist.intact(), "guard", "%s overran its buffer", nm);
            break;
        }
        case 10: {
            int k = c.p % 4;
            H3Index nb[7] = {0};
            if (gridDisk(h, 1, nb)) break;
            H3Index set[3];
            int m = 0;
            for (int i = 0; i < 7 && m < 3; i++) if (nb[i]) set[m++] = nb[i];
            int64_t n = 0;
            maxGridDiskSize(k, &n);
            Guarded<H3Index> out((size_t)n * (size_t)m);
            if (gridDisksUnsafe(set, m, k, out.p()) == E_SUCCESS) all(out.p(), (size_t)n * (size_t)m);
            CHECK(out.intact(), "guard", "gridDisksUnsafe overran");
            break;
        }
        case 11: {
            // path from h to a cell of its k-disk
            int k = c.p;
            int64_t n = 0;
            if (maxGridDiskSize(k, &n) || n > 50000) break;
            std::vector<H3Index> d((size_t)n, 0);
            if (gridDisk(h, k, d.data())) break;
            H3Index t = d[(size_t)((unsigned)c.q % (unsigned)n)];
            if (!t) break;
            int64_t sz = 0;
            if (gridPathCellsSize(h, t, &sz) || sz > 100000) break;
            Guarded<H3Index> out((size_t)sz);
            if (gridPathCells(h, t, out.p()) == E_SUCCESS) all(out.p(), (size_t)sz);
            CHECK(out.intact(), "guard", "gridPathCells overran");
            break;
        }
        case 12: {
            CoordIJ ij = {c.p, c.q};
            H3Index o = 0;
            if (localIjToCell(h, &ij, 0, &o) == E_SUCCESS) { all(&o, 1); CHECK(ref::res_of(o) == res, "closure", "localIjToCell returned another resolution"); }
            break;
        }
        case 13: case 14: {
            // polygon = boundary of a coarser ancestor (or the cell itself), filled at res
            int pr = res - (c.p % 3);
            if (pr < 0) pr = 0;
            H3Index anc = 0;
            if (cellToParent(h, pr, &anc)) break;
            CellBoundary cb;
            if (cellToBoundary(anc, &cb)) break;
            GeoPolygon gp;
            gp.geoloop.numVerts = cb.numVerts;
            gp.geoloop.verts = cb.verts;
            gp.numHoles = 0;
            gp.holes = nullptr;
            int64_t n = 0;
            bool ex = (c.api % NAPI) == 14;
            uint32_t flags = ex ? (uint32_t)(c.q & 3) : 0;
            if ((ex ? maxPolygonToCellsSizeExperimental(&gp, res, flags, &n) : maxPolygonToCellsSize(&gp, res, 0, &n)) || n > 2000000) break;
            Guarded<H3Index> out((size_t)n);
            H3Error e = ex ? polygonToCellsExperimental(&gp, res, flags, n, out.p()) : polygonToCells(&gp, res, 0, out.p());
            if (e == E_SUCCESS) all(out.p(), (size_t)n);
            CHECK(out.intact(), "guard", "%s overran", nm);
            break;
        }
        case 15: {
            int cr = res + 1 + (c.p % 2);
            if (cr > 15) break;
            int64_t n = 0;
            if (cellToChildrenSize(h, cr, &n)) break;
            std::vector<H3Index> ch((size_t)n);
            if (cellToChildren(h, cr, ch.data())) break;
            // drop some children so that compaction is partial
            size_t drop = (unsigned)c.q % (size_t)n;
            if (c.q & 1) ch.erase(ch.begin() + (long)drop);
            Guarded<H3Index> comp(ch.size());
            if (compactCells(ch.data(), comp.p(), (int64_t)ch.size()) == E_SUCCESS) {
                all(comp.p(), ch.size());
                int64_t un = 0;
                if (uncompactCellsSize(comp.p(), (int64_t)ch.size(), cr, &un) == E_SUCCESS) {
                    Guarded<H3Index> u((size_t)un);
                    if (uncompactCells(comp.p(), (int64_t)ch.size(), u.p(), un, cr) == E_SUCCESS) all(u.p(), (size_t)un);
                    CHECK(u.intact(), "guard", "uncompactCells overran");
                }
            }
            CHECK(comp.intact(), "guard", "compactCells overran");
            break;
        }
        case 16: {
            H3Index r0[122], p[12];
            if (getRes0Cells(r0) == E_SUCCESS) all(r0, 122);
            if (getPentagons(c.p & 15, p) == E_SUCCESS) all(p, 12);
            break;
        }
        case 17: {
            H3Index ed[6] = {0};
            if (originToDirectedEdges(h, ed)) break;
            for (int i = 0; i < 6; i++) {
                if (!ed[i]) continue;
                H3Index o = 0, d = 0, od[2] = {0, 0};
                if (getDirectedEdgeOrigin(ed[i], &o) == E_SUCCESS) all(&o, 1);
                if (getDirectedEdgeDestination(ed[i], &d) == E_SUCCESS) all(&d, 1);
                if (directedEdgeToCells(ed[i], od) == E_SUCCESS) all(od, 2);
            }
            break;
        }
        case 18: {
            // the owner cell embedded in a vertex index is a cell the library produced
            H3Index vx[6] = {0};
            if (cellToVertexes(h, vx)) break;
            for (int i = 0; i < 6; i++) {
                if (!vx[i]) continue;
                ref::Idx x = ref::unpack(vx[i]);
                x.mode = 1;
                x.reserved = 0;
                H3Index owner = ref::pack(x);
                all(&owner, 1);
            }
            break;
        }
    }
    if (FAILED()) return;
    if (produced) NONTRIVIAL();
    static Counter *ctr[NAPI] = {nullptr};
    if (!ctr[c.api % NAPI]) { static std::string names[NAPI]; names[c.api % NAPI] = std::string("closure.") + nm; ctr[c.api % NAPI] = new Counter(names[c.api % NAPI].c_str()); }
    count_hit(*ctr[c.api % NAPI]);
}

static void check(const Case &c) {
    if (c.kind == 1) { closure(c); return; }
    bool r = ref::valid_cell(c.v);
    bool l = isValidCell(c.v) != 0;
    int viol = r ? 0 : ref::rules_violated(c.v);
    if (r) { COUNT("pred.valid"); NONTRIVIAL(); if (ref::is_pent_bc(ref::unpack(c.v).bc)) COUNT("pred.valid.pentagon_base"); }
    else if (viol == 1) { COUNT("pred.near_valid(one rule violated)"); NONTRIVIAL(); }
    else COUNT("pred.invalid(>=2 rules)");
    CHECK(r == l, r ? "pred-rejects-valid" : "pred-accepts-invalid", "isValidCell(%016llx)=%d but the documented layout says %d", (unsigned long long)c.v, (int)l, (int)r);
}

// ---- predicate value generator: field-structured with planted features
static uint64_t drawValue() {
    int arm = rpick({6, 2, 2, 1});
    if (arm == 3) return r64();
    ref::Idx x;
    x.res = ri(0, 15);
    int bsel = rpick({3, 3, 1, 1});
    x.bc = bsel == 0 ? ri(0, 121) : bsel == 1 ? ref::PENT_BC[ri(0, 11)] : bsel == 2 ? ri(120, 127) : ri(0, 127);
    uint64_t bits = r64();
    int zeros = rpick({2, 1}) == 0 ? 0 : ri(0, 15);
    for (int r = 1; r <= 15; r++) {
        int d = (int)((bits >> (3 * (r - 1))) & 7);
        if (r <= x.res) {
            if (d == 7) d = (int)((bits >> 50) % 7);
            if (r <= zeros) d = 0;
        } else
            d = 7;
        x.d[r] = d;
    }
    int m = rpick({5, 2, 1, 1, 1, 1, 1});
    if (m == 1) {  // plant an arbitrary digit at an arbitrary position
        x.d[ri(1, 15)] = ri(0, 7);
    } else if (m == 2) {  // j zeros then 1 (the deleted sub-sequence on pentagons)
        int j = ri(0, 14);
        for (int r = 1; r <= j; r++) x.d[r] = 0;
        x.d[j + 1] = 1;
    } else if (m == 3) {
        x.mode = ri(0, 15);
    } else if (m == 4) {
        x.reserved = ri(0, 7);
    } else if (m == 5) {
        x.high = 1;
    } else if (m == 6) {
        x.d[ri(1, 15)] = 7;
    }
    uint64_t h = ref::pack(x);
    if (arm == 1) h ^= 1ULL << ri(0, 63);
    if (arm == 2) { h ^= 1ULL << ri(0, 63); h ^= 1ULL << ri(0, 63); if (ri(0, 1)) h ^= 1ULL << ri(0, 63); }
    return h;
}

static Case draw() {
    Case c;
    c.kind = rpick({7, 1});
    if (c.kind == 0) { c.v = drawValue(); return c; }
    c.api = ri(0, NAPI - 1);
    gen::GCell g = gen::cell(0, 15);
    c.v = g.h;
    int res = ref::res_of(c.v);
    switch (c.api) {
        case 0: { LatLng p = rpick({1, 1, 1}) == 0 ? gen::pointUniform() : ri(0, 1) ? gen::pointFaceEdge(res) : gen::pointPolar(res); c.lat = p.lat; c.lng = p.lng; c.p = ri(0, 15); break; }
        case 1: c.p = ri(0, res); break;
        case 2: c.p = std::min(15, res + ri(0, 4)); break;
        case 3: c.p = ri(res, 15); break;
        case 4: c.p = ri(res, 15); c.q = ri(0, 1 << 30); break;
        case 5: case 6: case 7: case 8: case 9: c.p = ri(0, 12); break;
        case 10: c.p = ri(0, 3); break;
        case 11: c.p = ri(0, 20); c.q = ri(0, 1 << 30); break;
        case 12: c.p = ri(-40, 40); c.q = ri(-40, 40); break;
        case 13: case 14: c.p = ri(0, 2); c.q = ri(0, 3); break;
        case 15: c.p = ri(0, 1); c.q = ri(0, 1 << 20); break;
        case 16: c.p = ri(0, 15); break;
        default: break;
    }
    return c;
}

// ---- complete strata (no randomness)
static void enumerate(const std::string &tier, int shard, int nshards, const std::function<void(const Case &)> &emit) {
    Case c;
    c.kind = 0;
    long outer = 0;
    // (1) every (res, base cell 0..127, position 1..15, planted digit 0..7) over seven background patterns
    static const int BG[7] = {0, 1, 2, 3, 5, 6, -1};  // -1: alternating 0/4
    for (int res = 0; res <= 15; res++)
        for (int bc = 0; bc < 128; bc++) {
            if ((outer++ % nshards) != shard) continue;
            for (int bg = 0; bg < 7; bg++)
                for (int pos = 1; pos <= 15; pos++)
                    for (int dg = 0; dg <= 7; dg++) {
                        ref::Idx x;
                        x.res = res;
                        x.bc = bc;
                        for (int r = 1; r <= 15; r++) x.d[r] = r <= res ? (BG[bg] >= 0 ? BG[bg] : (r % 2 ? 0 : 4)) : 7;
                        x.d[pos] = dg;
                        c.v = ref::pack(x);
                        emit(c);
                    }
        }
    // (2) every top byte x every res nibble over a valid and a pentagon body
    for (int top = 0; top < 256; top++) {
        if ((outer++ % nshards) != shard) continue;
        for (int res = 0; res <= 15; res++)
            for (int bc : {0, 4, 121, 122}) {
                ref::Idx x;
                x.res = res;
                x.bc = bc;
                for (int r = 1; r <= 15; r++) x.d[r] = r <= res ? 2 : 7;
                uint64_t h = ref::pack(x);
                h = (h & 0x00FFFFFFFFFFFFFFULL) | ((uint64_t)top << 56);
                c.v = h;
                emit(c);
            }
    }
    // (3) every digit string of length L<=Lmax over all 8 symbols, clean tail and one non-7 in each later position
    int Lmax = tier == "thorough" ? 7 : 6;
    for (int bc : {0, 4, 117, 121, 122, 127})
        for (int L = 0; L <= Lmax; L++) {
            long nstr = 1;
            for (int i = 0; i < L; i++) nstr *= 8;
            for (long sidx = 0; sidx < nstr; sidx++) {
                if ((outer++ % nshards) != shard) continue;
                ref::Idx x;
                x.res = L;
                x.bc = bc;
                long t = sidx;
                for (int r = L; r >= 1; r--) { x.d[r] = (int)(t % 8); t /= 8; }
                for (int r = L + 1; r <= 15; r++) x.d[r] = 7;
                c.v = ref::pack(x);
                emit(c);
                for (int r = L + 1; r <= 15; r++) {
                    x.d[r] = (int)((sidx + r) % 7);
                    c.v = ref::pack(x);
                    emit(c);
                    x.d[r] = 7;
                }
            }
        }
    // (4) every digit string over the reduced alphabet {0,1,6,7} for res <= Rmax, hexagon and pentagon base cell
    int Rmax = tier == "thorough" ? 13 : 11;
    static const int ALPHA[4] = {0, 1, 6, 7};
    for (int bc : {0, 4})
        for (int L = 1; L <= Rmax; L++) {
            long nstr = 1L << (2 * L);
            for (long sidx = 0; sidx < nstr; sidx++) {
                if ((outer++ % nshards) != shard) continue;
                ref::Idx x;
                x.res = L;
                x.bc = bc;
                long t = sidx;
                for (int r = L; r >= 1; r--) { x.d[r] = ALPHA[t & 3]; t >>= 2; }
                for (int r = L + 1; r <= 15; r++) x.d[r] = 7;
                c.v = ref::pack(x);
                emit(c);
            }
        }
}

int main(int argc, char **argv) {
    Harness<Case> h;
    h.id = "C01";
    h.draw = draw;
    h.check = check;
    h.enumerate = enumerate;
    h.ser = ser;
    h.deser = deser;
    h.fp = [](const Case &c) { return c.kind == 0 ? mix64(c.v, 0) : fnv(ser(c)); };
    h.selftest = []() {
        const char *e = ref::selftest();
        if (e) { fprintf(stderr, "reference model self-test failed: %s\n", e); exit(2); }
    };
    return harness_main(argc, argv, h);
}
