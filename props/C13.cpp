// C13 — cellToChildPos / childPosToCell are inverse bijections in child order
#include "gen.hpp"
using namespace vh;

struct Case {
    int kind = 0;  // 0 position (p, cres, pos); 1 whole array (p, cres); 2 child -> pos for every ancestor (child=p);
                   // 3 error clauses childPosToCell(pos, p, cres); 4 error clauses cellToChildPos(p, pres=cres)
    uint64_t p = 0;
    int cres = 0;
    int64_t pos = 0;
};
static std::string ser(const Case &c) { return fmt("kind=%d p=%016llx cres=%d pos=%lld", c.kind, (unsigned long long)c.p, c.cres, (long long)c.pos); }
static bool deser(const std::string &s, Case &c) {
    unsigned long long p;
    long long pos = 0;
    int n = sscanf(s.c_str(), "kind=%d p=%llx cres=%d pos=%lld", &c.kind, &p, &c.cres, &pos);
    c.p = p;
    c.pos = pos;
    return n >= 3;
}
static int MAXFULL = 6;

static void classify(uint64_t p, uint64_t child) {
    if (ref::is_pentagon(p)) {
        COUNT("parent.pentagon");
        // level at which the child's path leaves the pentagon centre chain
        ref::Idx x = ref::unpack(child);
        int pr = ref::res_of(p), lvl = 0;
        for (int r = pr + 1; r <= x.res; r++) if (x.d[r] != 0) { lvl = r - pr; break; }
        if (lvl == 0) COUNT("child.stays_on_pentagon_chain");
        else if (lvl == 1) COUNT("child.leaves_pentagon_at_level_1");
        else COUNT("child.leaves_pentagon_at_level>=2");
    } else COUNT("parent.hexagon");
}

static void check(const Case &c) {
    uint64_t p = c.p;
    if (!ref::valid_cell(p)) { DISCARD(); return; }
    int pres = ref::res_of(p);
    if (c.kind == 0) {
        int cres = c.cres;
        int64_t n = ref::children_count(p, cres);
        int64_t pos = c.pos;
        if (pos < 0 || pos >= n || cres < pres || cres > 15) { DISCARD(); return; }
        H3Index got = 0;
        H3Error e = childPosToCell(pos, p, cres, &got);
        uint64_t want = ref::child_at(p, cres, pos);
        CHECK(e == E_SUCCESS && got == want, "pos2cell", "childPosToCell(%lld,%016llx,%d) -> err %u %016llx, expected %016llx", (long long)pos, (unsigned long long)p, cres, e, (unsigned long long)got, (unsigned long long)want);
        int64_t back = -1;
        e = cellToChildPos(want, pres, &back);
        CHECK(e == E_SUCCESS && back == pos, "cell2pos", "cellToChildPos(%016llx,%d) -> err %u %lld, expected %lld", (unsigned long long)want, pres, e, (long long)back, (long long)pos);
        if (cres > pres) NONTRIVIAL();
        classify(p, want);
        COUNT("position");
        if (cres - pres >= 8) COUNT("depth>=8");
    } else if (c.kind == 1) {
        int cres = c.cres;
        if (cres < pres || cres > 15 || cres - pres > 8) { DISCARD(); return; }
        int64_t n = ref::children_count(p, cres);
        Guarded<H3Index> out((size_t)n);
        CHECK(cellToChildren(p, cres, out.p()) == E_SUCCESS, "children", "cellToChildren failed");
        CHECK(out.intact(), "guard", "cellToChildren overran");
        for (int64_t i = 0; i < n; i++) {
            H3Index x = out[(size_t)i];
            CHECK(x == ref::child_at(p, cres, i), "order", "cellToChildren[%lld] = %016llx, reference order says %016llx", (long long)i, (unsigned long long)x, (unsigned long long)ref::child_at(p, cres, i));
            H3Index y = 0;
            CHECK(childPosToCell(i, p, cres, &y) == E_SUCCESS && y == x, "pos2cell", "childPosToCell(%lld) = %016llx but cellToChildren[%lld] = %016llx", (long long)i, (unsigned long long)y, (long long)i, (unsigned long long)x);
            int64_t b = -1;
            CHECK(cellToChildPos(x, pres, &b) == E_SUCCESS && b == i, "cell2pos", "cellToChildPos(%016llx) = %lld, expected %lld", (unsigned long long)x, (long long)b, (long long)i);
        }
        if (cres > pres) NONTRIVIAL();
        COUNT("whole_array");
        if (ref::is_pentagon(p)) COUNT("parent.pentagon"); else COUNT("parent.hexagon");
    } else if (c.kind == 2) {
        // p is the child here: position within every ancestor
        for (int a = pres; a >= 0; a--) {
            int64_t b = -1;
            H3Error e = cellToChildPos(p, a, &b);
            int64_t want = ref::child_pos(p, a);
            CHECK(e == E_SUCCESS && b == want, "cell2pos", "cellToChildPos(%016llx,%d) -> err %u %lld, expected %lld", (unsigned long long)p, a, e, (long long)b, (long long)want);
            H3Index y = 0;
            CHECK(childPosToCell(b, ref::parent(p, a), pres, &y) == E_SUCCESS && y == p, "pos2cell", "childPosToCell(%lld, ancestor at res %d) != original child", (long long)b, a);
        }
        if (pres > 0) NONTRIVIAL();
        COUNT("all_ancestors");
        if (ref::is_pent_bc(ref::unpack(p).bc)) COUNT("child.in_pentagon_base_cell");
    } else if (c.kind == 3) {
        int cres = c.cres;
        H3Index out = 0xDEADBEEFULL;
        H3Error e = childPosToCell(c.pos, p, cres, &out);
        bool badres = cres < 0 || cres > 15, coarse = !badres && cres < pres;
        int64_t n = (!badres && !coarse) ? ref::children_count(p, cres) : 0;
        bool badpos = (!badres && !coarse) && (c.pos < 0 || c.pos >= n);
        if (badres) { COUNT("err.res_domain"); CHECK(e == E_RES_DOMAIN, "code", "childPosToCell(childRes %d) returned %u, expected E_RES_DOMAIN", cres, e); }
        else if (coarse) { COUNT("err.res_mismatch"); NONTRIVIAL(); CHECK(e == E_RES_MISMATCH, "code", "childPosToCell(childRes %d < parent res %d) returned %u, expected E_RES_MISMATCH", cres, pres, e); }
        else if (badpos) { COUNT("err.domain"); NONTRIVIAL(); CHECK(e == E_DOMAIN, "code", "childPosToCell(pos %lld of %lld) returned %u, expected E_DOMAIN", (long long)c.pos, (long long)n, e); }
        else { COUNT("err.none"); CHECK(e == E_SUCCESS && out == ref::child_at(p, cres, c.pos), "pos2cell", "childPosToCell wrong"); }
    } else {
        int a = c.cres;  // parent resolution argument
        int64_t b = -99;
        H3Error e = cellToChildPos(p, a, &b);
        if (a < 0 || a > 15) { COUNT("err.res_domain"); CHECK(e == E_RES_DOMAIN, "code", "cellToChildPos(parentRes %d) returned %u, expected E_RES_DOMAIN", a, e); }
        else if (a > pres) { COUNT("err.res_mismatch"); NONTRIVIAL(); CHECK(e == E_RES_MISMATCH, "code", "cellToChildPos(parentRes %d > res %d) returned %u, expected E_RES_MISMATCH", a, pres, e); }
        else { COUNT("err.none"); CHECK(e == E_SUCCESS && b == ref::child_pos(p, a), "cell2pos", "cellToChildPos wrong"); }
    }
}

static Case draw() {
    Case c;
    c.kind = rpick({6, 2, 3, 1, 1});
    int res = ri(0, 15);
    gen::GCell g = gen::cellRes(res, {3, 5, 2, 1, 0, 0, 1, 1, 4});
    if (c.kind <= 1 && rpick({1, 1}) == 1) g.h = gen::pentagonAt(res, ri(0, 11));
    c.p = g.h;
    if (c.kind == 0) {
        c.cres = ri(res, 15);
        int64_t n = ref::children_count(c.p, c.cres);
        int sel = rpick({3, 1, 1, 3});
        if (sel == 0) c.pos = (int64_t)(r64() % (uint64_t)n);
        else if (sel == 1) c.pos = 0;
        else if (sel == 2) c.pos = n - 1;
        else {
            // boundaries of the sub-blocks: start/end of the block of a generated prefix
            int depth = ri(res, c.cres);
            int64_t q = (int64_t)(r64() % (uint64_t)ref::children_count(c.p, depth));
            uint64_t mid = ref::child_at(c.p, depth, q);
            int64_t first = ref::child_pos(ref::center_child(mid, c.cres), res);
            int64_t cnt = ref::children_count(mid, c.cres);
            int w = ri(0, 3);
            c.pos = w == 0 ? first : w == 1 ? first + cnt - 1 : w == 2 ? first - 1 : first + cnt;
            if (c.pos < 0) c.pos = 0;
            if (c.pos >= n) c.pos = n - 1;
        }
    } else if (c.kind == 1) {
        c.cres = std::min(15, res + ri(0, MAXFULL));
    } else if (c.kind == 3) {
        c.cres = rpick({4, 1}) == 0 ? ri(0, 15) : ri(-2, 17);
        int64_t n = (c.cres >= res && c.cres <= 15) ? ref::children_count(c.p, c.cres) : 10;
        int sel = rpick({1, 1, 1, 1, 1});
        c.pos = sel == 0 ? -1 : sel == 1 ? n : sel == 2 ? n - 1 : sel == 3 ? (int64_t)(r64() >> 1) : -(int64_t)(r64() >> 1);
    } else if (c.kind == 4) {
        c.cres = rpick({4, 1}) == 0 ? ri(0, 15) : ri(-2, 17);
    }
    return c;
}

static void enumerate(const std::string &tier, int shard, int nshards, const std::function<void(const Case &)> &emit) {
    // every pentagon parent at every res x every depth difference: whole array up to D, and for larger differences
    // the boundaries of every first-level sub-block
    int D = tier == "thorough" ? 6 : 5;
    long idx = 0;
    Case c;
    for (int res = 0; res <= 15; res++) {
        H3Index p[12];
        getPentagons(res, p);
        for (int i = 0; i < 12; i++)
            for (int cr = res; cr <= 15; cr++) {
                if ((idx++ % nshards) != shard) continue;
                c.p = p[i];
                c.cres = cr;
                if (cr - res <= D) { c.kind = 1; c.pos = 0; emit(c); }
                c.kind = 0;
                int64_t n = ref::children_count(p[i], cr);
                if (cr > res) {
                    // sub-block boundaries of the first level below the pentagon
                    int64_t off = 0;
                    for (int dg = 0; dg <= 6; dg++) {
                        if (dg == 1) continue;
                        int64_t sz = dg == 0 ? ref::pent_children(cr - res - 1) : ref::hex_children(cr - res - 1);
                        c.pos = off; emit(c);
                        c.pos = off + sz - 1; emit(c);
                        off += sz;
                    }
                }
                c.pos = n - 1; emit(c);
            }
    }
}

int main(int argc, char **argv) {
    for (int i = 1; i < argc; i++) if (std::string(argv[i]) == "thorough") MAXFULL = 7;
    Harness<Case> h;
    h.id = "C13";
    h.draw = draw;
    h.check = check;
    h.enumerate = enumerate;
    h.ser = ser;
    h.deser = deser;
    h.selftest = []() { const char *e = ref::selftest(); if (e) { fprintf(stderr, "reference model self-test failed: %s\n", e); exit(2); } };
    return harness_main(argc, argv, h);
}
