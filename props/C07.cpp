// C07 — polygonToCells / polygonToCellsExperimental(CENTER) return exactly the cells whose centre is inside the polygon
#include "polyq.hpp"
#include <set>
using namespace vh;
using gq::Q;

struct Case {
    int res = 0;
    pq::GPoly g;
};
static std::string ser(const Case &c) { return fmt("res=%d ", c.res) + pq::ser(c.g); }
static bool deser(const std::string &s, Case &c) {
    if (sscanf(s.c_str(), "res=%d", &c.res) != 1) return false;
    return pq::deser(s, c.g);
}
static const Q MARGIN = 1e-11Q;

static void check(const Case &cc) {
    Case c = cc;  // library wants non-const vertex pointers
    if (c.g.outer.size() < 3) { DISCARD(); return; }
    int res = c.res;
    pq::LibPoly lp(c.g);
    pq::Frame fr(c.g.outer);
    bool transmeridian = false;
    for (size_t i = 0; i < c.g.outer.size(); i++) if (fabs(c.g.outer[i].lng - c.g.outer[(i + 1) % c.g.outer.size()].lng) > gen::PI) transmeridian = true;
    // root-cause classifier of a known finding: the library reads "some edge spans > 180 degrees raw" as "normalise all negative
    // longitudes by +2pi", which is only right for polygons narrower than 180 degrees; wide polygons that also cross (or touch) the
    // antimeridian are mis-framed by both algorithms
    bool wideTrans = transmeridian && (fr.maxx - fr.minx) > gq::PIq;
#define SIG(x) (wideTrans ? "wide-polygon-across-antimeridian" : (x))
    std::vector<H3Index> cand;
    if (!pq::candidates(c.g, res, cand)) { COUNT("skipped.too_many_candidates"); DISCARD(); return; }
    // the two algorithms
    std::vector<H3Index> got[2];
    for (int alg = 0; alg < 2; alg++) {
        int64_t n = -1;
        H3Error e = alg == 0 ? maxPolygonToCellsSize(&lp.gp, res, 0, &n) : maxPolygonToCellsSizeExperimental(&lp.gp, res, CONTAINMENT_CENTER, &n);
        const char *nm = alg == 0 ? "polygonToCells" : "polygonToCellsExperimental(CENTER)";
        CHECK(e == E_SUCCESS && n >= 0, SIG("size-code"), "max size function of %s failed with %u on a well-formed polygon", nm, e);
        if (n > 3000000) { COUNT("skipped.huge_size_estimate"); DISCARD(); return; }
        Guarded<H3Index> out((size_t)n, 0);
        e = alg == 0 ? polygonToCells(&lp.gp, res, 0, out.p()) : polygonToCellsExperimental(&lp.gp, res, CONTAINMENT_CENTER, n, out.p());
        CHECK(out.intact(), "guard", "%s wrote outside a buffer of exactly the announced size %lld", nm, (long long)n);
        // second known finding: maxPolygonToCellsSize estimates the cell count from the great-circle diagonal of the bounding box, which
        // saturates for boxes wider than 180 degrees; the legacy fill then runs out of hash slots and reports E_FAILED
        bool wide = (fr.maxx - fr.minx) > gq::PIq;
        CHECK(e == E_SUCCESS, SIG((alg == 0 && wide && e == E_FAILED) ? "wide-polygon-legacy-size-estimate" : "code"), "%s failed with %u on a well-formed polygon (size estimate %lld)", nm, e, (long long)n);
        std::set<H3Index> seen;
        for (int64_t i = 0; i < n; i++) {
            H3Index h = out[(size_t)i];
            if (!h) continue;
            CHECK(ref::valid_cell(h) && ref::res_of(h) == res, "invalid", "%s returned %016llx (invalid or wrong resolution)", nm, (unsigned long long)h);
            CHECK(seen.insert(h).second, "dup", "%s returned %016llx twice", nm, (unsigned long long)h);
            got[alg].push_back(h);
        }
    }
    // oracle
    pq::QPoly qp = pq::toQ(c.g, fr);
    std::set<H3Index> all(cand.begin(), cand.end());
    for (int alg = 0; alg < 2; alg++) for (H3Index h : got[alg]) all.insert(h);
    std::set<H3Index> S[2] = {std::set<H3Index>(got[0].begin(), got[0].end()), std::set<H3Index>(got[1].begin(), got[1].end())};
    long inside = 0, outside = 0, undecided = 0;
    for (H3Index h : all) {
        LatLng g;
        CHECK(cellToLatLng(h, &g) == E_SUCCESS, "c2ll", "cellToLatLng failed on %016llx", (unsigned long long)h);
        pq::P2 pt = fr.pt(g.lat, g.lng);
        int verdict = fr.inRange(pt.x, MARGIN) ? pq::inPoly(qp, pt, MARGIN) : -1;  // no representative inside the polygon's longitude range: outside
        if (verdict == 0) { undecided++; continue; }
        if (verdict > 0) inside++; else outside++;
        for (int alg = 0; alg < 2; alg++) {
            const char *nm = alg == 0 ? "polygonToCells" : "polygonToCellsExperimental(CENTER)";
            bool has = S[alg].count(h) > 0;
            if (verdict > 0 && !has) {
                // root-cause classifier of the (fixed) legacy defect: only the legacy algorithm misses, the polygon crosses the antimeridian
                const char *sig = SIG((alg == 0 && transmeridian && S[1].count(h)) ? "legacy-transmeridian-miss" : "missing");
                FAIL(sig, "%s omits %016llx whose centre (%.17g, %.17g) is inside the polygon (res %d, %zu vertices, %zu holes)", nm, (unsigned long long)h, g.lat, g.lng, res, c.g.outer.size(), c.g.holes.size());
                return;
            }
            if (verdict < 0 && has) {
                FAIL(SIG("extra"), "%s returned %016llx whose centre (%.17g, %.17g) is outside the polygon (res %d)", nm, (unsigned long long)h, g.lat, g.lng, res);
                return;
            }
        }
    }
    if (inside >= 1 && outside >= 1) NONTRIVIAL();
    {
        static Counter *sh[pq::NSHAPE] = {nullptr}, *lc[pq::NLOC] = {nullptr};
        static std::string sn[pq::NSHAPE], ln[pq::NLOC];
        int a = c.g.shape % pq::NSHAPE, b = c.g.loc % pq::NLOC;
        if (!sh[a]) { sn[a] = std::string("shape.") + pq::SHAPE_NAME[a]; sh[a] = new Counter(sn[a].c_str()); }
        if (!lc[b]) { ln[b] = std::string("location.") + pq::LOC_NAME[b]; lc[b] = new Counter(ln[b].c_str()); }
        count_hit(*sh[a]);
        count_hit(*lc[b]);
    }
    if (transmeridian) COUNT("crosses_antimeridian");
    if (wideTrans) COUNT("wide(>180deg)_and_crossing_antimeridian");
    if ((fr.maxx - fr.minx) > gq::PIq && !transmeridian) COUNT("wide(>180deg)_not_crossing");
    if (transmeridian && c.g.shape == 2) COUNT("needle_x_antimeridian");
    if (!c.g.holes.empty()) COUNT("with_holes");
    if (inside == 0) COUNT("no_cell_inside");
    if (inside >= 100) COUNT("cells_inside>=100");
    if (undecided) COUNT("has_undecided_centres(within 1e-11 of an edge)");
    static Counter dec("candidate_cells_decided");
    dec.n += (uint64_t)(inside + outside);
}

static int MAXCELLS = 400;

static Case draw() {
    Case c;
    c.res = ri(0, 15);
    c.g = pq::drawPoly(c.res, MAXCELLS, true, -1, -1, true);
    return c;
}

static void enumerate(const std::string &tier, int shard, int nshards, const std::function<void(const Case &)> &emit) {
    // deterministic stratum: boundary of every res-0..1 cell and every pentagon (res <= 6) as polygon, filled at res+1 and res+2
    long idx = 0;
    int zero[16] = {0};
    auto emitCell = [&](H3Index h, int fillRes) {
        CellBoundary cb;
        LatLng ctr;
        if (cellToBoundary(h, &cb) || cellToLatLng(h, &ctr)) return;
        if (fabs(ctr.lat) > 1.3) return;  // polar cells: not a well-formed lat/lng polygon
        Case c;
        c.res = fillRes;
        c.g.clat = ctr.lat; c.g.clng = ctr.lng; c.g.shape = 0; c.g.loc = ref::is_pentagon(h) ? 1 : 0;
        for (int i = 0; i < cb.numVerts; i++) c.g.outer.push_back(cb.verts[i]);
        emit(c);
    };
    for (int r = 0; r <= 1; r++)
        for (int bc = 0; bc < 122; bc++) {
            uint64_t base = ref::make_cell(0, bc, zero);
            int64_t n = ref::children_count(base, r);
            for (int64_t i = 0; i < n; i++) {
                if ((idx++ % nshards) != shard) continue;
                H3Index h = ref::child_at(base, r, i);
                emitCell(h, r + 1);
                emitCell(h, r + 2);
            }
        }
    // pruning-boundary stratum: for ancestors around the 20 face centres (the largest cells) at every res 0..14 and depth 1..3,
    // a polygon much smaller than a cell around the northern/southern/eastern/western-most descendant: hierarchical pruning by
    // the ancestor's bounding box must not lose it
    const gen::Ico &I = gen::ico();
    for (int ra = 0; ra <= 14; ra++)
        for (int f = 0; f < I.nfaces; f++) {
            if ((idx++ % nshards) != shard) continue;
            H3Index disk[7] = {0};
            gridDisk(gen::cellAt(I.faceCentre[f], ra), 1, disk);
            for (H3Index anc : disk) {
                if (!anc) continue;
                LatLng ac;
                cellToLatLng(anc, &ac);
                if (fabs(ac.lat) > 1.4) continue;
                for (int d = 1; d <= 3 && ra + d <= 15; d++) {
                    int r = ra + d;
                    int64_t n = ref::children_count(anc, r);
                    LatLng best[4];
                    double key[4] = {-1e9, -1e9, -1e9, -1e9};
                    for (int64_t i = 0; i < n; i++) {
                        LatLng p;
                        if (cellToLatLng(ref::child_at(anc, r, i), &p)) continue;
                        double dl = p.lng - ac.lng;
                        if (dl > gen::PI) dl -= 2 * gen::PI;
                        if (dl < -gen::PI) dl += 2 * gen::PI;
                        double k4[4] = {p.lat, -p.lat, dl, -dl};
                        for (int q = 0; q < 4; q++) if (k4[q] > key[q]) { key[q] = k4[q]; best[q] = p; }
                    }
                    for (int q = 0; q < 4; q++) {
                        Case c;
                        c.res = r;
                        c.g.clat = best[q].lat; c.g.clng = best[q].lng; c.g.shape = 3; c.g.loc = 7;
                        double R = 0.3 * gen::cellWidth(r);
                        for (int v = 0; v < 4; v++) {
                            double a = (v + 0.37) * gen::PI / 2;
                            LatLng p = {best[q].lat + R * std::sin(a), best[q].lng + R * std::cos(a) / std::cos(best[q].lat)};
                            if (p.lng > gen::PI) p.lng -= 2 * gen::PI;
                            if (p.lng < -gen::PI) p.lng += 2 * gen::PI;
                            c.g.outer.push_back(p);
                        }
                        emit(c);
                    }
                }
            }
        }
    for (int r = 2; r <= (tier == "thorough" ? 12 : 6); r++) {
        H3Index p[12];
        getPentagons(r, p);
        for (int i = 0; i < 12; i++) { if ((idx++ % nshards) != shard) continue; emitCell(p[i], r + 1); emitCell(p[i], r + 2); }
    }
}

int main(int argc, char **argv) {
    for (int i = 1; i < argc; i++) if (std::string(argv[i]) == "thorough") MAXCELLS = 8000;
    Harness<Case> h;
    h.id = "C07";
    h.draw = draw;
    h.check = check;
    h.enumerate = enumerate;
    h.ser = ser;
    h.deser = deser;
    return harness_main(argc, argv, h);
}
