// C17 — allocation failure is reported cleanly and nothing leaks (fault enumeration over the allocation index)
#include "polyq.hpp"
#include "allocmodel.hpp"
#include <set>
using namespace vh;

// second library copy: API prefix va_, allocator verif_* (engine/allocmodel.hpp)
extern "C" {
H3Error va_compactCells(const H3Index *h3Set, H3Index *compactedSet, const int64_t numHexes);
H3Error va_gridDisk(H3Index origin, int k, H3Index *out);
H3Error va_gridDiskDistances(H3Index origin, int k, H3Index *out, int *distances);
H3Error va_areNeighborCells(H3Index origin, H3Index destination, int *out);
H3Error va_maxPolygonToCellsSize(const GeoPolygon *geoPolygon, int res, uint32_t flags, int64_t *out);
H3Error va_polygonToCells(const GeoPolygon *geoPolygon, int res, uint32_t flags, H3Index *out);
H3Error va_maxPolygonToCellsSizeExperimental(const GeoPolygon *polygon, int res, uint32_t flags, int64_t *out);
H3Error va_polygonToCellsExperimental(const GeoPolygon *polygon, int res, uint32_t flags, int64_t size, H3Index *out);
}

enum Fn { COMPACT = 0, DISK, DISKDIST, NEIGHBOR, POLYFILL, POLYFILL_EXP, MAXSIZE_EXP, NFN };
static const char *FN[] = {"compactCells", "gridDisk", "gridDiskDistances", "areNeighborCells", "polygonToCells", "polygonToCellsExperimental", "maxPolygonToCellsSizeExperimental"};

struct Case {
    int fn = 0, res = 0, k = 0;
    uint32_t flags = 0;
    uint64_t h = 0, q = 0;
    std::vector<uint64_t> cells;
    pq::GPoly g;
};
static std::string ser(const Case &c) {
    std::string s = fmt("fn=%d res=%d k=%d flags=%u h=%016llx q=%016llx n=%zu cells=", c.fn, c.res, c.k, c.flags, (unsigned long long)c.h, (unsigned long long)c.q, c.cells.size());
    for (size_t i = 0; i < c.cells.size(); i++) s += fmt(i ? ",%llx" : "%llx", (unsigned long long)c.cells[i]);
    if (c.fn >= POLYFILL) s += " poly: " + pq::ser(c.g);
    return s;
}
static bool deser(const std::string &s, Case &c) {
    unsigned long long h, q;
    size_t n = 0;
    if (sscanf(s.c_str(), "fn=%d res=%d k=%d flags=%u h=%llx q=%llx n=%zu", &c.fn, &c.res, &c.k, &c.flags, &h, &q, &n) < 7) return false;
    c.h = h;
    c.q = q;
    size_t p = s.find("cells=");
    if (p == std::string::npos) return false;
    p += 6;
    c.cells.clear();
    while (p < s.size() && c.cells.size() < n) {
        char *end;
        unsigned long long v = strtoull(s.c_str() + p, &end, 16);
        if (end == s.c_str() + p) break;
        c.cells.push_back(v);
        p = (size_t)(end - s.c_str());
        if (p < s.size() && s[p] == ',') p++;
    }
    if (c.fn >= POLYFILL) {
        size_t pp = s.find(" poly: ");
        if (pp == std::string::npos) return false;
        return pq::deser(s.substr(pp + 7), c.g);
    }
    return c.cells.size() == n;
}

struct Result {
    H3Error code = 0;
    std::vector<uint64_t> out;
    std::vector<int> aux;
    int64_t scalar = 0;
    bool operator==(const Result &o) const { return code == o.code && out == o.out && aux == o.aux && scalar == o.scalar; }
};

// run the function once on the allocator-redirected copy (va = true) or the default copy
static bool run(Case &c, bool va, Result &r, std::string &skip) {
    r = Result();
    switch (c.fn) {
        case COMPACT: {
            r.out.assign(c.cells.size(), 0);
            r.code = va ? va_compactCells(c.cells.data(), r.out.data(), (int64_t)c.cells.size()) : compactCells(c.cells.data(), r.out.data(), (int64_t)c.cells.size());
            break;
        }
        case DISK: case DISKDIST: {
            int64_t n = 0;
            if (maxGridDiskSize(c.k, &n) || n > 100000) { skip = "size"; return false; }
            r.out.assign((size_t)n, 0);
            r.aux.assign((size_t)n, 0);
            if (c.fn == DISK) r.code = va ? va_gridDisk(c.h, c.k, r.out.data()) : gridDisk(c.h, c.k, r.out.data());
            else r.code = va ? va_gridDiskDistances(c.h, c.k, r.out.data(), r.aux.data()) : gridDiskDistances(c.h, c.k, r.out.data(), r.aux.data());
            break;
        }
        case NEIGHBOR: {
            int o = -1;
            r.code = va ? va_areNeighborCells(c.h, c.q, &o) : areNeighborCells(c.h, c.q, &o);
            r.scalar = r.code ? 0 : o;
            break;
        }
        case POLYFILL: {
            pq::LibPoly lp(c.g);
            int64_t n = 0;
            if (maxPolygonToCellsSize(&lp.gp, c.res, c.flags, &n)) { n = 16; }
            if (n > 300000) { skip = "size"; return false; }
            r.out.assign((size_t)n, 0);
            r.code = va ? va_polygonToCells(&lp.gp, c.res, c.flags, r.out.data()) : polygonToCells(&lp.gp, c.res, c.flags, r.out.data());
            break;
        }
        case POLYFILL_EXP: {
            pq::LibPoly lp(c.g);
            int64_t n = 0;
            if (maxPolygonToCellsSizeExperimental(&lp.gp, c.res, c.flags & 3, &n)) { skip = "sizefn"; return false; }
            if (n > 300000) { skip = "size"; return false; }
            // c.k = capacity mode: 0 announced size; 1 one slot fewer than the cells there are; 2 zero slots; 3 half of them (the E_MEMORY_BOUNDS path)
            if (c.k > 0) {
                std::vector<uint64_t> full((size_t)n, 0);
                int64_t cnt = 0;
                if (polygonToCellsExperimental(&lp.gp, c.res, c.flags, n, full.data()) == E_SUCCESS)
                    for (uint64_t x : full) if (x) cnt++;
                if (cnt > 0) n = c.k == 1 ? cnt - 1 : c.k == 2 ? 0 : cnt / 2;
            }
            r.out.assign((size_t)n, 0);
            r.code = va ? va_polygonToCellsExperimental(&lp.gp, c.res, c.flags, n, r.out.data()) : polygonToCellsExperimental(&lp.gp, c.res, c.flags, n, r.out.data());
            break;
        }
        default: {
            pq::LibPoly lp(c.g);
            int64_t n = -1;
            r.code = va ? va_maxPolygonToCellsSizeExperimental(&lp.gp, c.res, c.flags, &n) : maxPolygonToCellsSizeExperimental(&lp.gp, c.res, c.flags, &n);
            r.scalar = r.code ? 0 : n;
            break;
        }
    }
    if (r.code) { r.out.clear(); r.aux.clear(); }  // output contents are unspecified after an error
    return true;
}

static void check(const Case &cc) {
    Case c = cc;
    const char *fn = FN[c.fn % NFN];
    std::string skip;
    Result base, plain;
    // step 1: no failure
    am::M().reset();
    if (!run(c, true, base, skip)) { am::M().reset(); COUNT("skipped.too_large"); DISCARD(); return; }
    long N = am::M().calls;
    size_t live = am::M().live.size();
    long bad = am::M().badFrees;
    am::M().reset();
    CHECK(live == 0, "leak", "%s returned %u without failure injection and left %zu blocks allocated (%ld allocations)", fn, base.code, live, N);
    CHECK(bad == 0, "bad-free", "%s freed a block twice or a foreign pointer (%ld times) without failure injection", fn, bad);
    CHECK(base.code <= 15, "code", "%s returned undocumented code %u", fn, base.code);
    run(c, false, plain, skip);
    CHECK(base == plain, "differs-from-default-allocator", "%s gives a different result with the custom allocator (codes %u vs %u, %zu vs %zu output slots)", fn, base.code, plain.code, base.out.size(), plain.out.size());
    // step 2: every allocation index, single and sticky failure
    // complete over the allocation index for N <= 48; beyond that (flood fills around many pentagons: hundreds of nested allocations) the first 16,
    // the last 16 and 16 evenly spaced indexes — a complete enumeration of such a case alone took minutes
    std::vector<long> idxs;
    if (N <= 48) for (long n = 1; n <= N; n++) idxs.push_back(n);
    else {
        for (long n = 1; n <= 16; n++) idxs.push_back(n);
        for (long q = 1; q <= 16; q++) idxs.push_back(16 + q * (N - 32) / 17);
        for (long n = N - 15; n <= N; n++) idxs.push_back(n);
        COUNT("fault_points_sampled(N>48)");
    }
    for (long n : idxs)
        for (int sticky = 0; sticky < 2; sticky++) {
            Result r;
            am::M().reset(n, sticky != 0);
            run(c, true, r, skip);
            size_t lv = am::M().live.size();
            long bf = am::M().badFrees, failedCalls = am::M().failed;
            am::M().reset();
            CHECK(failedCalls >= 1, "plan", "allocation %ld of %ld was never reached (non-deterministic allocation sequence?)", n, N);
            // root-cause classifier of the (fixed) defect: the failing allocation sits inside the nested gridDisk and success is reported
            const char *sig = ((c.fn == POLYFILL || c.fn == NEIGHBOR) && r.code == E_SUCCESS) ? "nested-disk-alloc-swallowed" : "code-not-memory-alloc";
            CHECK(r.code == E_MEMORY_ALLOC, sig, "%s with allocation %ld of %ld failing (%s) returned %u instead of E_MEMORY_ALLOC", fn, n, N, sticky ? "and all later ones" : "only this one", r.code);
            CHECK(lv == 0, "leak-on-failure", "%s with allocation %ld of %ld failing (%s) left %zu blocks allocated", fn, n, N, sticky ? "sticky" : "single", lv);
            CHECK(bf == 0, "bad-free-on-failure", "%s with allocation %ld of %ld failing freed a block twice / a foreign pointer", fn, n, N);
        }
    if (N >= 2 || base.code != E_SUCCESS) NONTRIVIAL();
    {
        static Counter *ct[NFN] = {nullptr};
        static std::string nm[NFN];
        int a = c.fn % NFN;
        if (!ct[a]) { nm[a] = std::string("fn.") + fn; ct[a] = new Counter(nm[a].c_str()); }
        count_hit(*ct[a]);
    }
    if (N == 0) COUNT("no_allocation_made");
    if (N >= 4) COUNT("allocations>=4");
    if (N >= 8) COUNT("allocations>=8");
    if (base.code != E_SUCCESS) COUNT("error_path_input");
    if ((c.fn == DISK || c.fn == DISKDIST || c.fn == NEIGHBOR) && (!ref::valid_cell(c.h) || (c.fn == NEIGHBOR && !ref::valid_cell(c.q)))) COUNT("error_path.invalid_cell_argument");
    if (base.code == E_MEMORY_BOUNDS) COUNT("error_path.E_MEMORY_BOUNDS(capacity too small)");
    if (c.fn >= POLYFILL) { bool bad = false; auto scan = [&](const std::vector<LatLng> &l) { for (auto &v : l) if (!std::isfinite(v.lat) || !std::isfinite(v.lng) || fabs(v.lat) > 10 || fabs(v.lng) > 10) bad = true; }; scan(c.g.outer); for (auto &h : c.g.holes) scan(h); if (bad) COUNT("error_path.malformed_coordinate"); }
    if (c.fn == COMPACT && !c.cells.empty()) { size_t z = 0; for (uint64_t x : c.cells) if (!x) z++; if (z) COUNT("compact.input_holds_H3_NULL"); if (c.cells[0] == 0 && z < c.cells.size()) COUNT("compact.input_starts_with_H3_NULL"); }
    if (c.fn == COMPACT && base.code == E_SUCCESS) { bool toBase = false; for (uint64_t x : base.out) if (x && ref::res_of(x) == 0) toBase = true; if (toBase) COUNT("compact.reaches_resolution_0"); }
    static Counter faults("fault_points_enumerated");
    faults.n += (uint64_t)(2 * idxs.size());
}

// make a valid cell invalid in one of the ways the traversal code has to survive: base cell >= 122, digit 7 inside the resolution,
// deleted sub-sequence under a pentagon, wrong mode, high bit, a non-7 digit behind the resolution
static uint64_t spoil(uint64_t h) {
    int res = ref::res_of(h);
    switch (rpick({2, 3, 3, 1, 1, 1})) {
        case 0: return (h & ~(127ULL << 45)) | ((uint64_t)ri(122, 127) << 45);
        case 1: { if (!res) return h | (1ULL << 63); int pos = ri(1, res); return h | (7ULL << (3 * (15 - pos))); }
        case 2: {  // pentagon base cell, leading non-zero digit 1
            if (!res) return (h & ~(127ULL << 45)) | (127ULL << 45);
            uint64_t p = gen::pentagonAt(res, ri(0, 11));
            int pos = ri(1, res);
            p |= 1ULL << (3 * (15 - pos));
            for (int r = pos + 1; r <= res; r++) p |= (uint64_t)ri(0, 6) << (3 * (15 - r));
            return p;
        }
        case 3: return (h & ~(15ULL << 59)) | ((uint64_t)ri(2, 15) << 59);
        case 4: return h | (1ULL << 63);
        default: { if (res == 15) return h ^ (1ULL << 56); int pos = ri(res + 1, 15); return h & ~((uint64_t)ri(1, 7) << (3 * (15 - pos))); }
    }
}

static Case draw() {
    Case c;
    c.fn = rpick({3, 2, 2, 2, 3, 4, 2});
    c.res = ri(0, 15);
    switch (c.fn) {
        case COMPACT: {
            // multi-round compaction: sub-trees of depth 1..3, partial groups, pentagon families; error-path inputs
            int r = std::max(1, c.res);
            c.res = r;
            int blocks = ri(1, 4);
            std::vector<uint64_t> v;
            if (rpick({4, 1}) == 1) {  // complete descendants of several whole base cells: compaction runs down to resolution 0
                r = c.res = ri(1, 2);
                blocks = 0;
                int k = rpick({1, 1}) == 0 ? ri(1, 12) : (rpick({3, 1}) == 0 ? ri(6, 30) : 122);
                uint64_t s0 = r64();
                std::vector<int> bcs(122);
                for (int i = 0; i < 122; i++) bcs[(size_t)i] = i;
                for (size_t i = 122; i > 1; i--) std::swap(bcs[i - 1], bcs[(size_t)(splitmix(s0) % i)]);
                int zero[16] = {0};
                for (int i = 0; i < k; i++) {
                    uint64_t anc = ref::make_cell(0, bcs[(size_t)i], zero);
                    int64_t n = ref::children_count(anc, r);
                    for (int64_t j = 0; j < n; j++) v.push_back(ref::child_at(anc, r, j));
                }
                if (rpick({2, 1}) == 1 && !v.empty()) v.erase(v.begin() + (long)(r64() % v.size()));
            }
            for (int b = 0; b < blocks; b++) {
                int d = ri(1, std::min(r, 3));
                uint64_t anc = rpick({2, 1}) ? gen::cellRes(r - d, {3, 3, 1, 1, 0, 0, 1}).h : gen::pentagonAt(r - d, ri(0, 11));
                int64_t n = ref::children_count(anc, r);
                for (int64_t i = 0; i < n; i++) v.push_back(ref::child_at(anc, r, i));
                if (rpick({2, 1}) == 1 && !v.empty()) v.erase(v.begin() + (long)(r64() % v.size()));
            }
            std::sort(v.begin(), v.end());
            v.erase(std::unique(v.begin(), v.end()), v.end());
            int err = rpick({6, 1, 1, 1, 2});
            if (err == 4 && !v.empty()) {  // mixed resolutions: one member replaced by an ancestor 1..4 levels up or by a centre child
                size_t i = (size_t)(r64() % v.size());
                int rr = ref::res_of(v[i]);
                if (rbool() && rr > 0) v[i] = ref::parent(v[i], std::max(0, rr - ri(1, 4)));
                else if (rr < 15) v[i] = ref::center_child(v[i], std::min(15, rr + ri(1, 3)));
                if (rbool() && v.size() > 1) std::swap(v[0], v[i]);  // sometimes as the first element (it sets the resolution of the run)
            }
            if (err == 1 && !v.empty()) v.push_back(v[(size_t)(r64() % v.size())]);            // duplicate
            if (err == 2 && !v.empty()) v[(size_t)(r64() % v.size())] ^= (7ULL << 56);          // reserved bits set
            if (err == 3 && !v.empty()) v[(size_t)(r64() % v.size())] = 0x7fffffffffffffffULL;  // invalid cell
            uint64_t s = r64();
            for (size_t i = v.size(); i > 1; i--) std::swap(v[i - 1], v[(size_t)(splitmix(s) % i)]);
            // sparse input: compactCells skips H3_NULL entries (its own output is zero-padded, and callers feed it back); zeros at the
            // front, in the middle and at the end — a leading zero decides which resolution the run is taken to have
            if (rpick({3, 1}) == 1 && !v.empty()) {
                int nz = ri(1, 4);
                int where = rpick({2, 1, 1});
                for (int z = 0; z < nz; z++) {
                    size_t pos = where == 0 ? 0 : where == 1 ? (size_t)(r64() % (v.size() + 1)) : v.size();
                    v.insert(v.begin() + (long)pos, 0);
                }
            }
            c.cells = v;
            break;
        }
        case DISK: case DISKDIST: {
            c.h = rpick({3, 1}) == 0 ? gen::cellPentDisk(c.res, 3) : gen::cellRes(c.res).h;
            c.k = ri(0, 6);
            if (rpick({5, 1}) == 1) c.h = spoil(c.h);  // error path: an origin that is not a valid cell
            break;
        }
        case NEIGHBOR: {
            c.h = rpick({3, 1}) == 0 ? gen::cellPentDisk(c.res, 2) : gen::cellRes(c.res).h;
            H3Index d[19] = {0};
            gridDisk(c.h, 2, d);
            c.q = d[ri(0, 18)];
            if (!c.q) c.q = c.h;
            if (rpick({8, 1}) == 1) c.q = gen::cell(0, 15).h;  // error path: other resolution
            if (rpick({8, 1}) == 1) { if (rbool()) c.h = spoil(c.h); else c.q = spoil(c.q); }  // error path: invalid cell
            break;
        }
        default: {
            c.g = pq::drawPoly(c.res, 60, true, rpick({3, 2, 1, 1, 0, 1}), rpick({2, 5, 1, 1, 1, 1}));
            if (rpick({11, 1}) == 1) {  // a polygon that covers (nearly) the whole grid at a coarse resolution: estimates reach the total number of cells
                c.res = ri(0, 2);
                if (rbool()) c.g = pq::drawPoly(c.res, 60, false, 6);
                else {
                    c.g = pq::GPoly();
                    double la = 1.3 + 0.18 * runit(), lo = 3.0 + 0.12 * runit();
                    // every edge shorter than 180 degrees of longitude (a 4-vertex rectangle would be read as crossing the antimeridian)
                    c.g.outer = {{-la, -lo}, {-la, -lo / 3}, {-la, lo / 3}, {-la, lo}, {la, lo}, {la, lo / 3}, {la, -lo / 3}, {la, -lo}};
                    c.g.shape = 4; c.g.loc = 0;
                    if (rbool()) c.g.holes.push_back({{-0.1, -0.1}, {-0.1, 0.1}, {0.1, 0.1}, {0.1, -0.1}});
                }
            }
            c.flags = c.fn == POLYFILL ? 0u : (uint32_t)ri(0, 3);
            if (rpick({8, 1}) == 1) c.flags = (uint32_t)ri(4, 40);  // bad flags: error path
            if (rpick({12, 1}) == 1) c.g.outer.clear();              // empty outer loop
            if (c.fn == POLYFILL_EXP) c.k = rpick({3, 1, 1, 1});     // capacity mode (see run)
            if (rpick({7, 1}) == 1 && !c.g.outer.empty()) {          // error path: one coordinate of the outer loop or of a hole is NaN / infinite / huge
                static const double BAD[] = {NAN, INFINITY, -INFINITY, 1e300, -1e19};
                std::vector<LatLng> &loop = (!c.g.holes.empty() && rpick({1, 2})) ? c.g.holes[(size_t)ri(0, (int)c.g.holes.size() - 1)] : c.g.outer;
                if (!loop.empty()) {
                    LatLng &v = loop[(size_t)ri(0, (int)loop.size() - 1)];
                    (rbool() ? v.lat : v.lng) = BAD[ri(0, 4)];
                    c.res = std::min(c.res, 2);  // work bound: a bounding box reaching lat 1e19 at a fine resolution keeps the fills busy for minutes
                }
            }
            break;
        }
    }
    return c;
}

static void enumerate(const std::string &tier, int shard, int nshards, const std::function<void(const Case &)> &emit) {
    // every pentagon and pentagon neighbour at every res: gridDisk / gridDiskDistances k=1..3, areNeighborCells with every cell of the k=1 disk,
    // and the boundary of the pentagon's parent as polygon for the three polygon functions
    long idx = 0;
    for (int r = 0; r <= 15; r++) {
        H3Index p[12];
        getPentagons(r, p);
        for (int i = 0; i < 12; i++) {
            if ((idx++ % nshards) != shard) continue;
            H3Index d[7] = {0};
            gridDisk(p[i], 1, d);
            for (H3Index h : d) {
                if (!h) continue;
                Case c;
                c.res = r;
                c.h = h;
                for (int k = 1; k <= (tier == "thorough" ? 5 : 3); k++) { c.fn = DISK; c.k = k; emit(c); c.fn = DISKDIST; emit(c); }
                c.fn = NEIGHBOR;
                for (H3Index q : d) if (q) { c.q = q; emit(c); }
                // error paths: the same origin made invalid in three ways (digit 7, deleted sub-sequence / base cell 127, high bit)
                if (r >= 1) {
                    uint64_t bad[3] = {h | (7ULL << (3 * (15 - r))), (ref::is_pent_bc(ref::unpack(h).bc) && ref::is_pentagon(h)) ? (h | (1ULL << (3 * (15 - r)))) : ((h & ~(127ULL << 45)) | (127ULL << 45)), h | (1ULL << 63)};
                    for (uint64_t b : bad) { c.h = b; c.fn = DISK; c.k = 1; emit(c); c.k = 2; emit(c); c.fn = DISKDIST; emit(c); c.fn = NEIGHBOR; c.q = h; emit(c); }
                    c.h = h;
                }
            }
            if (r >= 1) {
                H3Index par = ref::parent(p[i], r - 1);
                CellBoundary cb;
                LatLng ctr;
                if (cellToBoundary(par, &cb) == E_SUCCESS && cellToLatLng(par, &ctr) == E_SUCCESS && fabs(ctr.lat) < 1.3) {
                    Case c;
                    c.res = r;
                    c.g.clat = ctr.lat; c.g.clng = ctr.lng; c.g.loc = 1;
                    for (int v = 0; v < cb.numVerts; v++) c.g.outer.push_back(cb.verts[v]);
                    c.fn = POLYFILL; c.flags = 0; emit(c);
                    for (uint32_t m = 0; m < 4; m++) {
                        c.fn = POLYFILL_EXP; c.flags = m;
                        for (int cap = 0; cap < 4; cap++) { c.k = cap; emit(c); }
                        c.k = 0; c.fn = MAXSIZE_EXP; emit(c);
                    }
                }
            }
        }
    }
}

int main(int argc, char **argv) {
    Harness<Case> h;
    h.id = "C17";
    h.draw = draw;
    h.check = check;
    h.enumerate = enumerate;
    h.ser = ser;
    h.deser = deser;
    return harness_main(argc, argv, h);
}
