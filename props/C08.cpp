// C08 — cell boundaries tile the sphere: shared edges coincide, areas sum to 4*pi
#include "topo.hpp"
using namespace vh;
using gq::Q;

struct Case {
    int kind = 0;  // 0: cell h with all neighbours; 2: whole resolution p (area sum)
    uint64_t h = 0;
    int p = 0;
    int arm = -1;
};
static std::string ser(const Case &c) { return fmt("kind=%d h=%016llx p=%d arm=%d", c.kind, (unsigned long long)c.h, c.p, c.arm); }
static bool deser(const std::string &s, Case &c) {
    unsigned long long h;
    int n = sscanf(s.c_str(), "kind=%d h=%llx p=%d arm=%d", &c.kind, &h, &c.p, &c.arm);
    c.h = h;
    return n >= 2;
}
static const double EARTH_R_KM = 6371.007180918475;

static void cellCheck(const Case &c) {
    H3Index a = c.h;
    if (!ref::valid_cell(a)) { DISCARD(); return; }
    int res = ref::res_of(a);
    bool pent = ref::is_pentagon(a), odd = res % 2 == 1;
    CellBoundary cb;
    CHECK(cellToBoundary(a, &cb) == E_SUCCESS, "boundary", "cellToBoundary(%016llx) failed", (unsigned long long)a);
    int nv = cb.numVerts;
    if (pent) CHECK(nv == (odd ? 10 : 5), "vertcount", "pentagon %016llx at res %d has %d boundary vertices", (unsigned long long)a, res, nv);
    else if (!odd) CHECK(nv == 6, "vertcount", "hexagon %016llx at even res %d has %d boundary vertices", (unsigned long long)a, res, nv);
    else CHECK(nv >= 6 && nv <= 8, "vertcount", "hexagon %016llx at odd res %d has %d boundary vertices", (unsigned long long)a, res, nv);
    std::vector<gq::V> A;
    for (int i = 0; i < nv; i++) A.push_back(gq::fromLL(cb.verts[i].lat, cb.verts[i].lng));
    gq::V ctr = topo::centreQ(a);
    // counter-clockwise, centre strictly inside: every fan triangle has positive signed area
    Q area = 0, perim = 0;
    for (int i = 0; i < nv; i++) {
        Q t = gq::triArea(ctr, A[i], A[(i + 1) % nv]);
        area += t;
        perim += gq::angle(A[i], A[(i + 1) % nv]);
    }
    CHECK(area > 0, "ccw", "boundary of %016llx is not counter-clockwise (signed area %.3e)", (unsigned long long)a, (double)area);
    for (int i = 0; i < nv; i++) {
        Q t = gq::triArea(ctr, A[i], A[(i + 1) % nv]);
        Q tiny = area * 1e-9Q / nv;
        if (fabsq(t) < tiny) { COUNT("degenerate_fan_triangle(<1e-9 of mean)"); continue; }
        CHECK(t > 0, "ccw", "fan triangle %d of %016llx has negative area: boundary not ccw around the centre / centre not inside", i, (unsigned long long)a);
    }
    // area functions
    double ar = -1, akm = -1, am = -1;
    CHECK(cellAreaRads2(a, &ar) == E_SUCCESS && cellAreaKm2(a, &akm) == E_SUCCESS && cellAreaM2(a, &am) == E_SUCCESS, "area-code", "cellArea* failed on %016llx", (unsigned long long)a);
    double relA = (double)(fabsq((Q)ar - area) / area);
    WORST("cellAreaRads2 relative error vs binary128", relA);
    // tolerance: 1e-9 relative plus the effect of ~4 ulp(pi) of coordinate noise on each vertex (perimeter * 2e-15 / area):
    // for res-15 cells astride the antimeridian the double-precision longitude differences alone limit any formula to ~3e-9
    double tolA = 1e-9 + 2e-15 * (double)(perim / area);
    WORST("cellAreaRads2 error / tolerance", relA / tolA);
    CHECK(relA <= tolA, "area", "cellAreaRads2(%016llx) = %.17g, spherical area of its boundary is %.17g (rel %.3e)", (unsigned long long)a, ar, (double)area, relA);
    CHECK(fabs(akm - ar * EARTH_R_KM * EARTH_R_KM) <= 1e-13 * fabs(akm), "area-units", "cellAreaKm2 is not cellAreaRads2 * R^2");
    CHECK(fabs(am - akm * 1e6) <= 1e-13 * fabs(am), "area-units", "cellAreaM2 is not cellAreaKm2 * 1e6");
    // neighbours from geometry
    std::vector<H3Index> nb;
    if (!topo::geoNeighbors(a, nb)) { COUNT("unprobeable(polar res>=14)"); DISCARD(); return; }
    CHECK((int)nb.size() == (pent ? 5 : 6), "neighbours", "%016llx has %zu geometric neighbours", (unsigned long long)a, nb.size());
    Q near = perim / nv * 1e-3Q;
    std::vector<int> cover(nv, 0);
    bool special = pent || nv != 6;
    for (H3Index b : nb) {
        CellBoundary bb;
        std::vector<gq::V> B = topo::boundaryQ(b, &bb);
        CHECK(!B.empty(), "boundary", "cellToBoundary failed on neighbour");
        if (ref::is_pentagon(b) || bb.numVerts != 6) special = true;
        topo::SharedRun r = topo::sharedRun(A, B, near);
        CHECK(r.ia.size() == 2 || r.ia.size() == 3, "shared-run", "%016llx and its neighbour %016llx share %zu boundary vertices (expected 2 or 3)", (unsigned long long)a, (unsigned long long)b, r.ia.size());
        CHECK(r.consecutive, "shared-run", "the vertices %016llx shares with %016llx are not one consecutive stretch traversed in reverse by the neighbour", (unsigned long long)a, (unsigned long long)b);
        WORST("shared vertex mismatch rad", (double)r.worst);
        CHECK(r.worst <= 1e-12Q, "shared-coincide", "shared vertices of %016llx and %016llx differ by %.3e rad (> 1e-12)", (unsigned long long)a, (unsigned long long)b, (double)r.worst);
        for (size_t t = 0; t + 1 < r.ia.size(); t++) cover[r.ia[t]]++;
        if (r.ia.size() == 3) COUNT("shared_run_of_3(distortion vertex)");
    }
    for (int i = 0; i < nv; i++)
        CHECK(cover[i] == 1, cover[i] == 0 ? "gap" : "overlap", "boundary segment %d of %016llx is shared with %d neighbours (gap or overlap)", i, (unsigned long long)a, cover[i]);
    if (special) NONTRIVIAL();
    COUNT("cell");
    if (pent) COUNT("cell.pentagon");
    if (nv == 7 || nv == 8) COUNT("cell.hexagon_with_distortion_vertices");
    if (nv == 10) COUNT("cell.pentagon_classIII");
    if (res >= 12) COUNT("cell.res>=12");
}

static void wholeRes(const Case &c) {
    int r = c.p;
    int zero[16] = {0};
    Q sumLib = 0, sumQ = 0;
    long n = 0;
    for (int bc = 0; bc < 122; bc++) {
        uint64_t base = ref::make_cell(0, bc, zero);
        int64_t cnt = ref::children_count(base, r);
        for (int64_t i = 0; i < cnt; i++) {
            H3Index h = ref::child_at(base, r, i);
            double ar;
            CHECK(cellAreaRads2(h, &ar) == E_SUCCESS, "area-code", "cellAreaRads2 failed");
            sumLib += ar;
            std::vector<gq::V> P = topo::boundaryQ(h);
            sumQ += gq::polyArea(P, topo::centreQ(h));
            n++;
        }
    }
    Q four = 4 * gq::PIq;
    WORST("|sum cellAreaRads2 - 4pi|", (double)fabsq(sumLib - four));
    WORST("|sum boundary areas - 4pi|", (double)fabsq(sumQ - four));
    CHECK(fabsq(sumLib - four) <= 1e-9Q, "sum-4pi", "res %d: cellAreaRads2 sums to 4pi%+.3e over %ld cells", r, (double)(sumLib - four), n);
    CHECK(fabsq(sumQ - four) <= 1e-9Q, "sum-4pi-boundary", "res %d: the spherical areas of the %ld boundaries sum to 4pi%+.3e (gaps or overlaps)", r, n, (double)(sumQ - four));
    NONTRIVIAL();
    COUNT("whole_resolution_area_sum");
}

static void check(const Case &c) {
    if (c.kind == 2) wholeRes(c);
    else cellCheck(c);
}

static Case draw() {
    Case c;
    int res = ri(0, 15);
    gen::GCell g = gen::cellRes(res, {2, 2, 6, 8, 1, 1, 1, 1, 1});
    c.h = g.h;
    c.arm = g.arm;
    return c;
}

static void enumerate(const std::string &tier, int shard, int nshards, const std::function<void(const Case &)> &emit) {
    bool th = tier == "thorough";
    long idx = 0;
    Case c;
    int zero[16] = {0};
    for (int r = (th ? 6 : 4); r >= 0; r--) { if ((idx++ % nshards) != shard) continue; c.kind = 2; c.p = r; emit(c); }
    c.kind = 0;
    // every cell of res 0..3 (4 thorough)
    for (int r = 0; r <= (th ? 4 : 3); r++)
        for (int bc = 0; bc < 122; bc++) {
            if ((idx++ % nshards) != shard) continue;
            uint64_t base = ref::make_cell(0, bc, zero);
            int64_t n = ref::children_count(base, r);
            for (int64_t i = 0; i < n; i++) { c.h = ref::child_at(base, r, i); emit(c); }
        }
    // pentagons and their k<=2 disks at every res
    for (int r = 0; r <= 15; r++) {
        H3Index p[12];
        getPentagons(r, p);
        for (int i = 0; i < 12; i++) {
            if ((idx++ % nshards) != shard) continue;
            H3Index d[19] = {0};
            gridDisk(p[i], 2, d);
            for (H3Index h : d) if (h) { c.h = h; emit(c); }
        }
    }
    // cells along all 30 icosahedron edges, res <= 5 (7 thorough)
    const gen::Ico &I = gen::ico();
    for (int r = 1; r <= (th ? 7 : 5); r++) {
        double w = gen::cellWidth(r);
        for (int e = 0; e < 30; e++) {
            if ((idx++ % nshards) != shard) continue;
            gen::V3 a = gen::toV(I.vert[I.edges[e][0]].lat, I.vert[I.edges[e][0]].lng), b = gen::toV(I.vert[I.edges[e][1]].lat, I.vert[I.edges[e][1]].lng);
            int steps = (int)(1.2 / (w * 0.5)) + 1;
            H3Index prev = 0;
            for (int s = 0; s <= steps; s++) {
                H3Index h = gen::cellAt(gen::toLL(gen::lerpN(a, b, (double)s / steps)), r);
                if (h == prev || !h) continue;
                prev = h;
                c.h = h;
                emit(c);
            }
        }
    }
}

int main(int argc, char **argv) {
    Harness<Case> h;
    h.id = "C08";
    h.draw = draw;
    h.check = check;
    h.enumerate = enumerate;
    h.ser = ser;
    h.deser = deser;
    h.fp = [](const Case &c) { return mix64(c.h, (uint64_t)c.kind * 100 + (uint64_t)c.p); };
    return harness_main(argc, argv, h);
}
