#!/usr/bin/env python3
import json,sys
pid=sys.argv[1]
import glob,os
prev=[]
for d in sorted(glob.glob('/verif/seeded/%s-*/meta.json'%pid)):
    try: prev.append(json.load(open(d))['summary'][:220])
    except Exception: pass
avoid=''
if prev: avoid='\n\nEarlier rounds already produced the following changes for this property; yours must have DIFFERENT root causes and touch different logic:\n'+'\n'.join(' - '+x+' ...' for x in prev)
for l in open('/verif/properties.jsonl'):
    p=json.loads(l)
    if p['id']==pid: break
wt=f'/tmp/seed/{pid}'; out=f'/tmp/seed/{pid}-out'
print(f"""You are helping to evaluate how sensitive a verification tool is. You get ONE semantic property of the uber/h3 C library (v4.2.1) and your own scratch git worktree of the library at {wt}. Work ONLY inside {wt} and {out}. Do not read, list or modify /repo, /verif or any other /tmp/seed/* directory — independence from the verification machinery is the point of the exercise.

PROPERTY {p['id']}: {p['title']}
Statement: {p['statement']}
Quantified over: {p['quantifier']['text']}

TASK: write a change to the library sources (under src/h3lib/) that BREAKS this property while the code (a) still compiles without new warnings-as-errors and (b) still passes the complete existing test suite. Build and test exactly like this, from {wt}:
    cmake -G Ninja -B _build -DCMAKE_BUILD_TYPE=RelWithDebInfo -DCMAKE_C_FLAGS=-Wno-error . >/dev/null && cmake --build _build >/dev/null && ctest --test-dir _build -j8 --timeout 900 | tail -5
(280 tests; ALL must pass with your change applied. The sandbox has no network.)

The change must be realistic — the kind of slip a refactoring, an optimisation or a "simplification" could introduce, in real library logic or tables, not a planted `if (input == MAGIC)` backdoor — and it must need something SPECIFIC to manifest: an unusual input region (e.g. one pentagon orientation, one icosahedron face edge, a particular resolution parity or depth, cells near a pole / the antimeridian), a multi-step sequence of operations, a fault at a particular point, or two cooperating sites that each look fine alone. Do NOT produce a change that ordinary use exposes at once. Prefer changes whose effect is a wrong RESULT (the property is violated semantically) over a crash.

{avoid}

Please produce TWO independent changes with different root causes if you can (second one optional if time is short): deliver into {out}/ :
  patch.diff   — `git diff` of the source change (must apply with `git apply` from the repository root to a clean checkout)
  demo.c       — a small C program using only the public API (#include "h3api.h") that exits 0 on the UNMODIFIED library and exits non-zero (printing what went wrong) on the modified one. It should demonstrate that the PROPERTY above is violated (not just that some output changed). Build it with: gcc -O1 demo.c -I _build/src/h3lib/include _build/lib/libh3.a -lm -o demo
  meta.json    — {{"property": "{p['id']}", "summary": "...what the change does...", "needs_to_manifest": "...which inputs/sequence/fault it needs...", "commands": "...what you ran to confirm..."}}
and for the second change patch2.diff, demo2.c, meta2.json.

You must CONFIRM each change yourself: with the patch applied the whole test suite passes and the demo fails; without the patch the demo passes. Report the ctest summary line for the patched tree. When finished, leave the worktree clean (`git checkout -- . && rm -rf _build demo demo2`) — the deliverables live only in {out}/. In your final answer, summarise each change in 3-4 lines (what, where, what it needs to manifest, ctest result, demo result).""")
