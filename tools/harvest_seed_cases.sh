#!/bin/bash
# usage: tools/harvest_seed_cases.sh [filter-regex]
# For every seeded change: run the quick check against a scratch copy with the patch applied, take the first replay file of the
# reported violation, confirm that it PASSES on the unchanged tree, and keep it as a regression case in corpus/<id>/ (C12:
# corpus/C12/regress/). The seconds-long replay tier then detects the same slip deterministically, whatever VERIF_SEED is.
cd /verif
for d in seeded/*/; do
  n=$(basename $d); [ -n "${1:-}" ] && ! echo "$n" | grep -Eq "$1" && continue
  p=$(jq -r .property $d/meta.json)
  ext=case; dest=corpus/$p; [ "$p" = C12 ] && { ext=bin; dest=corpus/C12/regress; }
  [ -f $dest/from-seed-$n.$ext ] && { echo "$n: already harvested"; continue; }
  s=$(mktemp -d /tmp/h3seed.XXXXXX); mkdir -p $s/src && cp -r /repo/src/h3lib $s/src/ && cp /repo/VERSION $s/
  (cd $s && patch -s -p1 < /verif/$d/patch.diff) || { echo "$n: PATCH FAILED"; rm -rf $s; continue; }
  out=$(VERIF_REPO=$s VERIF_NO_EVIDENCE=1 ./check $p 2>&1)
  rm -rf $s
  rp=$(echo "$out" | grep -o "replay=[^ ]*" | head -1 | cut -d= -f2)
  [ -z "$rp" ] && { echo "$n: not caught, nothing to harvest"; continue; }
  case "$rp" in /verif/corpus/*) echo "$n: caught by an existing corpus case ($rp)"; continue;; esac
  if VERIF_NO_EVIDENCE=1 ./check $p --replay $rp >/dev/null 2>&1; then
    mkdir -p $dest; cp $rp $dest/from-seed-$n.$ext; echo "$n: harvested $dest/from-seed-$n.$ext"
  else
    echo "$n: replay file also fails on the unchanged tree (not kept): $rp"
  fi
done
