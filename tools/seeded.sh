#!/bin/bash
# usage: tools/seeded.sh <prop> <patch.diff> [check args]  — run a check against a scratch copy of /repo with the patch applied
set -u
prop=$1; patch=$(readlink -f $2); shift 2
d=$(mktemp -d /tmp/h3seed.XXXXXX)
mkdir -p $d/src && cp -r /repo/src/h3lib $d/src/ && cp /repo/VERSION $d/
(cd $d && patch -s -p1 < $patch) || { echo "PATCH FAILED"; rm -rf $d; exit 3; }
VERIF_REPO=$d VERIF_NO_EVIDENCE=1 /verif/check $prop "$@" 2>&1 | grep -E "VIOLATION|OK property|KNOWN|note:|^   " | head -60 | cut -c1-260
rm -rf $d
