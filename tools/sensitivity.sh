#!/bin/bash
# usage: tools/sensitivity.sh [prop-filter]  — runs every mutant of notes/mutants.txt through its quick check (scratch copies), prints a table
cd /verif
grep -v '^#' notes/mutants.txt | while IFS='|' read -r prop file expr expect; do
  [ -n "${1:-}" ] && [ "$prop" != "$1" ] && continue
  out=$(VERIF_SCALE=${VERIF_SCALE:-0.5} tools/mutant.sh $prop $file "$expr" 2>&1)
  if echo "$out" | grep -q "MUTATION DID NOT APPLY"; then r="NOT-APPLIED"; elif echo "$out" | grep -q VIOLATION; then r="caught"; else r="missed"; fi
  first=$(echo "$out" | grep -A1 VIOLATION | grep "^   " | head -1 | cut -c1-150)
  echo "$prop | $expr | expect=$expect | $r | $first"
done
