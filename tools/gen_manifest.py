#!/usr/bin/env python3
"""Regenerates MANIFEST.json from engine/props_table.py (single source of truth)."""
import json, os, sys
V = os.path.dirname(os.path.dirname(os.path.abspath(__file__)))
sys.path.insert(0, os.path.join(V, 'engine'))
from props_table import PROPS, PENDING
ids = [json.loads(l)['id'] for l in open(os.path.join(V, 'properties.jsonl'))]
hooks_commits = [l.strip() for l in open(os.path.join(V, 'hooks_commits.txt'))] if os.path.exists(os.path.join(V, 'hooks_commits.txt')) else []
checks = []
for pid in ids:
    if pid not in PROPS: continue
    s = PROPS[pid]
    checks.append({
        'property_id': pid,
        'quick_cmd': f'./check {pid} --tier quick',
        'thorough_cmd': f'./check {pid} --tier thorough',
        'evidence_file': f'evidence/{pid}.json',
        'replay_cmd_template': f'./check {pid} --replay {{path}}',
        'engine': s.get('engine', 'rapidcheck'),
        'level_claimed': {'category': s.get('level', 'exploration'), 'text': s['level_text'], 'design_ref': f'DESIGN.md §4 {pid}'},
        'level_note': s['level_note'],
        'technique': s['technique'],
    })
na = [{'property_id': pid, 'reason': PENDING.get(pid, 'check not built yet (work in progress; see DESIGN.md §9)')} for pid in ids if pid not in PROPS]
engines = {}
for pid in ids:
    if pid in PROPS:
        engines.setdefault(PROPS[pid].get('engine', 'rapidcheck'), []).append(pid)
ENG = {
    'rapidcheck': ('engine/harness.hpp', 'property-based testing: rapidcheck generators + shrinking, one pure check_case per property, deterministic enumeration of finite strata, replay files that bypass the library'),
    'libfuzzer': ('fuzz/', 'coverage-guided fuzzing (libFuzzer + ASan + UBSan, assertions on) over byte strings decoded into API programs, semantic oracle inside the target'),
}
doc = {
    'version': 1,
    'setup_cmd': './check setup',
    'hooks': {
        'guard': 'UBER_H3_VERIF',
        'enable': 'every check compiles /repo/src/h3lib/lib/*.c itself with -DUBER_H3_VERIF and without NDEBUG (the library\'s assert/NEVER/ALWAYS checks are live); no source hooks were needed',
        'baseline_off_cmd': 'cmake --build /repo/_build && ctest --test-dir /repo/_build -j8 --timeout 900',
        'source_commits': hooks_commits,
        'add_only': True,
    },
    'engines': [{'name': k, 'path': ENG[k][0], 'serves_properties': v, 'kind_free_text': ENG[k][1]} for k, v in engines.items()],
    'checks': checks,
    'not_applicable': na,
    'notes': 'See DESIGN.md. known_findings.json lists genuine defects (fixed or known). VERIF_SEED / VERIF_TIER / VERIF_JOBS / VERIF_SCALE are honoured.',
}
json.dump(doc, open(os.path.join(V, 'MANIFEST.json'), 'w'), indent=1)
print(len(checks), 'checks;', len(na), 'not claimed')
