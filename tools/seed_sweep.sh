#!/bin/bash
# usage: tools/seed_sweep.sh [filter-regex] — runs every seeded change under seeded/ through the quick check of its property
# (scratch copy of the library sources, never /repo itself) and prints one line per seed: caught / missed + first message.
cd /verif
for d in seeded/*/; do
  n=$(basename $d); [ -n "${1:-}" ] && ! echo "$n" | grep -Eq "$1" && continue
  p=$(jq -r .property $d/meta.json)
  [ -f engine/props_table.py ] && python3 -c "import sys; sys.path.insert(0,'engine'); from props_table import PROPS; sys.exit(0 if '$p' in PROPS else 1)" || { echo "$n | $p | no-check"; continue; }
  t0=$(date +%s)
  out=$(tools/seeded.sh $p $d/patch.diff ${SWEEP_ARGS:-} 2>&1)
  t1=$(date +%s)
  if echo "$out" | grep -q "PATCH FAILED"; then r="PATCH-FAILED"; elif echo "$out" | grep -q VIOLATION; then r="caught"; else r="MISSED"; fi
  first=$(echo "$out" | grep -A1 VIOLATION | grep "^   " | head -1 | cut -c1-180)
  echo "$n | $p | $r | $((t1-t0))s | $first"
done
