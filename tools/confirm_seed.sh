#!/bin/bash
# usage: tools/confirm_seed.sh <Cxx> <suffix: "" or 2> <seedname>
# Confirms a sub-agent's change in its scratch worktree: patch applies, suite passes (280), demo fails with / passes without.
# On success copies patch/demo/meta to /verif/seeded/<seedname>/ and appends what was run.
set -u
pid=$1; suf=$2; name=$3
wt=/tmp/seed/$pid; out=/tmp/seed/$pid-out
cd $wt || exit 2
git checkout -q -- . ; rm -rf _build
git apply $out/patch$suf.diff || { echo "$name: PATCH DOES NOT APPLY"; exit 1; }
cmake -G Ninja -B _build -DCMAKE_BUILD_TYPE=RelWithDebInfo -DCMAKE_C_FLAGS=-Wno-error . >/dev/null 2>&1 && cmake --build _build >/dev/null 2>&1 || { echo "$name: BUILD FAILED"; git checkout -q -- .; exit 1; }
summ=$(ctest --test-dir _build -j8 --timeout 900 2>&1 | grep "tests passed" )
extra=""
grep -q pthread $out/demo$suf.c && extra="-lpthread"
lib=libh3.a
grep -q test_prefix_ $out/demo$suf.c && lib=libh3WithTestAllocators.a
gcc -O1 $out/demo$suf.c -I _build/src/h3lib/include _build/lib/$lib -lm $extra -o demo_p 2>/dev/null || gcc -O1 $out/demo$suf.c -I _build/src/h3lib/include -I src/h3lib/include _build/lib/$lib -lm -lpthread -o demo_p 2>/dev/null
timeout 600 ./demo_p >/dev/null 2>&1; rc_p=$?
git checkout -q -- .
cmake --build _build >/dev/null 2>&1
gcc -O1 $out/demo$suf.c -I _build/src/h3lib/include _build/lib/$lib -lm $extra -o demo_c 2>/dev/null || gcc -O1 $out/demo$suf.c -I _build/src/h3lib/include -I src/h3lib/include _build/lib/$lib -lm -lpthread -o demo_c 2>/dev/null
timeout 600 ./demo_c >/dev/null 2>&1; rc_c=$?
rm -rf _build demo_p demo_c
echo "$name: suite='$summ' demo_with_patch=$rc_p demo_clean=$rc_c"
if echo "$summ" | grep -q "100% tests passed, 0 tests failed out of 280" && [ $rc_p -ne 0 ] && [ $rc_c -eq 0 ]; then
  mkdir -p /verif/seeded/$name
  cp $out/patch$suf.diff /verif/seeded/$name/patch.diff; cp $out/demo$suf.c /verif/seeded/$name/demo.c
  python3 - <<PY
import json
m=json.load(open('$out/meta$suf.json'))
m['confirmed']={'suite':'$summ'.strip(),'demo_exit_with_patch':$rc_p,'demo_exit_clean':$rc_c,'how':'tools/confirm_seed.sh in a scratch worktree: git apply, cmake+ninja build, ctest -j8 (280 tests), demo built against the patched and the clean library'}
json.dump(m,open('/verif/seeded/$name/meta.json','w'),indent=1)
PY
  echo "$name: CONFIRMED"
else
  echo "$name: NOT CONFIRMED"
fi
