#!/bin/bash
# usage: tools/mutant.sh <prop> <file-relative-to-repo> <sed-expression> [extra check args]
# Applies a one-line mutation to a scratch copy of the library sources (outside /repo and /verif),
# runs the quick check against it, removes the copy. Used for the sensitivity protocol (DESIGN §5).
set -u
prop=$1; file=$2; expr=$3; shift 3
d=$(mktemp -d /tmp/h3mut.XXXXXX)
mkdir -p $d/src && cp -r /repo/src/h3lib $d/src/ && cp /repo/VERSION $d/
before=$(md5sum $d/$file | cut -d' ' -f1)
sed -i -E "$expr" $d/$file
after=$(md5sum $d/$file | cut -d' ' -f1)
if [ "$before" = "$after" ]; then echo "MUTATION DID NOT APPLY"; rm -rf $d; exit 3; fi
diff <(cat /repo/$file) $d/$file | head -8
VERIF_REPO=$d VERIF_NO_EVIDENCE=1 /verif/check $prop "$@" 2>&1 | grep -E "VIOLATION|OK property|KNOWN|note:|^   " | head -12
rc=${PIPESTATUS[0]}
rm -rf $d
exit $rc
